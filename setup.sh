#!/bin/bash
# offline setup: verify the interpreters and libraries the checks need; install hypothesis into
# /venv from the offline wheelhouse only if it is missing.
set -e
cd "$(dirname "$0")"
if ! /venv/bin/python -c "import hypothesis" 2>/dev/null; then
    /venv/bin/pip install --no-index --find-links /opt/veriftools/wheels hypothesis
fi
/venv/bin/python -c "import hypothesis, pandas, networkx; print('hypothesis', hypothesis.__version__)"
python3-vt -c "import z3; print('z3', z3.get_version_string())"
test -x /usr/bin/z3 && /usr/bin/z3 --version
chmod +x check standin/optimathsat 2>/dev/null || true
mkdir -p evidence out
# the trusted base (reference interpreter) against z3 bit-vector semantics
python3-vt vf/selftest_evm.py 300
echo "setup ok"
