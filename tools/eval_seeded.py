#!/usr/bin/env python3
"""Confirm and evaluate a seeded change delivered in a scratch worktree.
usage: tools/eval_seeded.py <name> <worktree> <property> <check> [<check> ...] [--no-pytest]
writes seeded/<name>/{patch.diff, demo.py, meta.json}"""
import json
import os
import shutil
import subprocess
import sys
import time
import xml.etree.ElementTree as ET

HERE = os.path.dirname(os.path.dirname(os.path.abspath(__file__)))


def sh(cmd, cwd=None, timeout=3600):
    r = subprocess.run(cmd, shell=True, cwd=cwd, stdout=subprocess.PIPE, stderr=subprocess.STDOUT, text=True, timeout=timeout)
    return r.returncode, r.stdout


def main():
    args = [a for a in sys.argv[1:] if not a.startswith("--")]
    name, wt, prop = args[0], args[1], args[2]
    checks = args[3:]
    out = os.path.join(HERE, "seeded", name)
    os.makedirs(out, exist_ok=True)
    meta = {"name": name, "breaks_property": prop, "worktree_base": sh("git rev-parse HEAD", wt)[1].strip()}
    rc, diff = sh("git diff", wt)
    if not diff.strip():
        print("no change in", wt)
        return 2
    open(os.path.join(out, "patch.diff"), "w").write(diff)
    meta["files_changed"] = sh("git diff --stat", wt)[1].strip().splitlines()
    demo = os.path.join(wt, "demo.py")
    if os.path.exists(demo):
        shutil.copy(demo, os.path.join(out, "demo.py"))
        rc_with, o_with = sh("/venv/bin/python -W ignore demo.py", wt, 1200)
        sh("git diff > /tmp/eval_seeded_p_%s.patch && git apply -R /tmp/eval_seeded_p_%s.patch" % (name, name), wt)
        rc_without, o_without = sh("/venv/bin/python -W ignore demo.py", wt, 1200)
        sh("git apply /tmp/eval_seeded_p_%s.patch" % name, wt)
        meta["demo"] = {"exit_with_change": rc_with, "exit_without_change": rc_without, "tail_with_change": o_with[-600:], "tail_without": o_without[-300:]}
        print("demo: with change exit", rc_with, "| without", rc_without)
    if "--no-pytest" not in sys.argv:
        t0 = time.time()
        rc, o = sh("/venv/bin/python -m pytest -q -p no:cacheprovider --timeout=900 --continue-on-collection-errors --junitxml=/tmp/eval_seeded_junit_%s.xml" % name, wt, 3000)
        base = json.load(open("/root/.vp/BASELINE.json"))
        res = {}
        try:
            for tc in ET.parse("/tmp/eval_seeded_junit_%s.xml" % name).getroot().iter("testcase"):
                nm = tc.get("classname") + "::" + tc.get("name")
                res[nm] = "fail" if [c for c in tc if c.tag in ("failure", "error", "skipped")] else "pass"
        except Exception as e:
            meta["pytest_error"] = str(e)
        lost = [n for n in base["stable_pass"] if res.get(n) != "pass"]
        gained = [n for n, v in res.items() if v == "pass" and n not in base["stable_pass"]]
        meta["pytest"] = {"baseline_passing_now_failing": lost, "newly_passing": gained, "passed": sum(1 for v in res.values() if v == "pass"),
                          "wall_s": round(time.time() - t0)}
        print("pytest with change: lost", lost, "gained", gained)
    meta["checks"] = {}
    for c in checks:
        t0 = time.time()
        rc, o = sh("GASOL_REPO=%s ./check %s --tier quick" % (wt, c), HERE, 3600)
        buckets = [l.strip()[:300] for l in o.splitlines() if l.strip().startswith("bucket=")]
        meta["checks"][c] = {"exit": rc, "violations": sum(1 for l in o.splitlines() if l.startswith("VIOLATION")), "buckets": buckets[:4],
                             "wall_s": round(time.time() - t0, 1), "summary": [l for l in o.splitlines() if " quick: " in l][-1:]}
        print(c, "exit", rc, buckets[:2])
    meta["detected_by"] = [c for c, v in meta["checks"].items() if v["exit"] == 1]
    rc, o = sh("git apply --check %s" % os.path.join(out, "patch.diff"), "/repo")
    meta["applies_to_repo_head"] = (rc == 0)
    prev = {}
    mp = os.path.join(out, "meta.json")
    if os.path.exists(mp):
        prev = json.load(open(mp))
    prev.update(meta)
    json.dump(prev, open(mp, "w"), indent=1)
    print("detected by:", meta["detected_by"])


if __name__ == "__main__":
    sys.exit(main())
