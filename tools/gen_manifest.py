#!/usr/bin/env python3
"""generates /verif/MANIFEST.json (never hand-edit the JSON)"""
import json
import os

HERE = os.path.dirname(os.path.dirname(os.path.abspath(__file__)))

CHECKS = {
    "C01": dict(level="exploration", technique="property-based testing (Hypothesis-generated contracts x option sets) with a differential oracle: independent reference EVM interpreter on boundary/aliasing states",
                text="Generated-input search: every emitted block that differs from its input is executed against the original on concrete boundary, aliasing and random machine states by an independent EVM interpreter; finds any non-equivalence witnessed by one of the explored states, proves nothing beyond them.",
                note="trusts vf/evm.py (cross-checked vs z3 bit-vectors by ./check selftest); external calls modelled as adversarial functions of their event; gas/PC/MSIZE excluded; z3 4.8 stands in for the absent solver binaries",
                ref="DESIGN.md section 3 C01"),
    "C02": dict(level="exploration", technique="property-based testing: specification evaluator over enumerated/sampled admissible schedules vs reference interpreter (differential), memory templates enumerated",
                text="Every sub-block specification is evaluated under all (<=120) or sampled linearizations of its memory/storage/hash operations on colliding and random states and compared with the block; a missing ordering edge or wrong forwarding shows as a concrete (schedule, state) witness.",
                note="trusts vf/evm.py and vf/spec_eval.py; segment taken from the specification's original_instrs (validated separately by C16/C14)",
                ref="DESIGN.md section 3 C02"),
    "C03": dict(level="exploration", technique="bounded-exhaustive rule catalogue + Hypothesis random blocks; metamorphic/differential oracle: spec(rules on) = spec(rules off) = reference interpreter on the full boundary grid",
                text="All instantiations of each rule/folding site with variables, repeated variables and boundary constants are enumerated (not sampled) and evaluated on the cross product of 15 boundary words per free operand plus random states; catches any rule that is wrong on the grid or on sampled states.",
                note="trusts vf/evm.py; the size-mode clause is decided on emitted code by C08",
                ref="DESIGN.md section 3 C03"),
    "C04": dict(level="exploration", technique="property-based testing of greedy_from_json on front-end specifications and metamorphic variants (rename / permute / extra words); oracle = independent abstract sequence checker + reference interpreter",
                text="Each id sequence greedy reports as successful is symbolically executed by an independent checker (underflow, DUP/SWAP depth, stores once, every dependence pair, operands as named, exact final stack); finds any non-realizing result among the generated specifications.",
                note="trusts vf/seqcheck.py; commutativity is taken from the specification's own flag; error=1 answers are allowed by the property",
                ref="DESIGN.md section 3 C04"),
    "C14": dict(level="exploration", technique="property-based testing of the split/rebuild functions; oracles = tiling/round-trip identities and an independently constructed expected block for single-segment replacement",
                text="Generated blocks with dense split layouts under the three policies: joined sub-blocks must equal the optimizable sequence, specification keys must name reported sub-blocks with matching height change, rebuild with nothing replaced must be the identity and replacing one sub-block must change exactly that segment.",
                note="own arity table for heights; the reported partition is taken as given once it tiles the block",
                ref="DESIGN.md section 3 C14"),
    "C16": dict(level="exploration", technique="property-based testing with witness search: original segment, greedy result and bounded-exhaustive enumeration (E5) of realizing sequences; violations only with an exhaustive-search or counting proof",
                text="For every generated specification the published bounds are confronted with validated realizing sequences; infeasibility is reported only when an exhaustive search inside the bounds finds nothing while a sequence exists outside, or by a counting argument; min_length is compared with every validated witness.",
                note="trusts vf/seqcheck.py and vf/brute.py; larger specifications without witness are counted as inconclusive",
                ref="DESIGN.md section 3 C16"),
    "C18": dict(level="exploration", technique="bounded-exhaustive enumeration of formula trees (depth <= 2) + Hypothesis recursive trees (depth <= 4); oracle = three-way truth-table agreement (own AST evaluator, constructed object, re-parsed SMT-LIB text) and == implies equal truth table",
                text="All well-sorted trees of depth <= 2 over the atom set are enumerated and deeper/n-ary ones sampled; each is built through add_* and its truth table over 20 valuations compared three ways; detects any simplification or printing step that changes a truth value on the explored trees.",
                note="own S-expression reader/evaluator; uninterpreted f fixed to one total function; the depth-2 enumeration is complete for the stated atom set, deeper trees are sampled",
                ref="DESIGN.md section 3 C18"),
    "C15": dict(level="exploration", technique="property-based round-trip testing: shipped + Hypothesis-synthesised solc documents (to_json(parse(D)) == D), generated blocks through both text renderings, constant spellings against an independent reader",
                text="Round-trip oracles over all shipped documents, generated documents with every optional field/pseudo-push kind, generated blocks (two text formats) and eight textual spellings per constant; finds any field dropped, invented or re-valued on the explored inputs.",
                note="JSON equality as values (key order ignored), modulo the documented PUSH0 spelling; contracts without asm are generated as {} as in the shipped corpus",
                ref="DESIGN.md section 3 C15"),
    "C08": dict(level="exploration", technique="property-based testing through the real CLI entry with an independent cost model (differential accounting): per-block monotonicity + acceptance rule + printed totals and CSV columns re-derived from the emitted file; exhaustive opcode-table diff",
                text="Generated contracts under all criteria/split/back-end options: every emitted block is priced with an independent table and must be no costlier (and improved if changed); printed totals and CSV savings must equal sums/differences of those figures; the tool's size/gas table is diffed against the independent one over every opcode name.",
                note="independent table follows the Yellow Paper/EIPs with stated assumptions for dynamic parts (EXP one byte, per-word parts excluded, access-list convention within a block)",
                ref="DESIGN.md section 3 C08"),
    "C09": dict(level="exploration", technique="property-based testing through the real CLI entry on shipped and Hypothesis-synthesised documents; oracle = independent reader: skeleton/metadata identity, item well-formedness predicate, re-read idempotence",
                text="The emitted file is compared with the input outside optimizable segments item by item with all fields, every emitted item is validated (name, canonical PUSH value, DUP/SWAP depth, pseudo-push operand present in the input block) and the output is re-read by the tool's parser; both directions (nothing lost, nothing invented).",
                note="own reader vf/asm.py; under -partition only default splitting instructions are required in the skeleton",
                ref="DESIGN.md section 3 C09"),
    "C17": dict(level="exploration", technique="property-based testing with zero-push-dense blocks x PUSH0 setting x criteria; oracles: emitted-item predicate (JSON and -bl text), specification pricing predicate, independent cost totals, differential run with and without -c",
                text="Generated blocks that push, fold or derive zeros are optimized with PUSH0 enabled and disabled; emitted items, text output, specification entries and printed totals must follow the chosen setting on both sides; -c runs are compared with the unrestricted run.",
                note="independent cost table vf/cost.py; inputs never contain an item named PUSH0 (solc spells it PUSH 0)",
                ref="DESIGN.md section 3 C17"),
    "C10": dict(level="fault_enumeration", technique="property-based testing with a hostile-constant generator + fault injection at the front-end entry; oracle = run completes with an output under CPU/memory budgets, injected failure changes only the faulty block (differential vs fault-free run)",
                text="Generated contracts with hostile constants/idioms and long blocks run through the real CLI entry under a CPU budget; any escaping exception, budget hit (confirmed in a fresh child under RLIMIT_CPU/RLIMIT_AS) or missing output is a violation; for a share of the contracts the analysis of one block is forced to raise and the output is compared block by block with the fault-free run.",
                note="bulk runs are in-process with a soft timer (forked children are serialized by this hypervisor); every failure is decided by a forked run under hard limits; fault injection only under the deterministic -greedy back-end",
                ref="DESIGN.md section 3 C10"),
    "C12": dict(level="exploration", technique="model-based stateful testing (Hypothesis RuleBasedStateMachine): histories of block-processing calls in one process without state reset; model = the same block on pristine module state (cross-checked against fresh forked processes)",
                text="Random call histories of up to 30-50 blocks under fixed options; after every step the full observable result of the block (specifications with identifiers, sub-blocks, optimized code, log, statistics) must equal its fresh-process result; any leaked global that changes a later result is caught on the explored histories.",
                note="pristine state emulated by restoring the data globals of the tool's stateful modules to their import-time snapshot, validated on a sample against real fresh processes each run; greedy back-end only",
                ref="DESIGN.md section 3 C12"),
    "C13": dict(level="exploration", technique="differential testing across processes: the same generated inputs are evaluated by 4 long-lived tool processes started with different PYTHONHASHSEED values under full machine load; outputs compared field by field",
                text="Specifications (identifiers included), greedy id lists, emitted .smt2 text and whole-contract outputs/logs/statistics must be identical across string-hash seeds, working directories and process instances for every generated input.",
                note="Max-SMT results are excluded (solver time-outs), their problem text is compared instead; load = 16 busy workers",
                ref="DESIGN.md section 3 C13"),
    "C05": dict(level="exploration", technique="mutation-based property testing: semantic mutation operators on generated blocks, mutants admitted only with a concrete distinguishing state from the reference interpreter; oracle = checker must reject; reflexivity on all generated blocks; Forves rendering re-parsed by an own reader",
                text="Pairs (B, mutant) that the independent interpreter can tell apart on a concrete state must be answered 'not equal' by compare_asm_block_asm_format; every generated block must compare equal to itself; the external-checker adapter's rendering must decode to exactly the segments of both blocks and its verdict may be true only for undistinguished pairs.",
                note="distinguishability decided on >= 60 states by vf/evm.py (mutants without witness are discarded, counted); out-of-domain-only differences are not used as witnesses",
                ref="DESIGN.md section 3 C05"),
    "C11": dict(level="exploration", technique="model-based stateful testing (Hypothesis RuleBasedStateMachine) of optimize / replay / tamper histories; oracles: byte identity for exact replay; for tampered logs 'error or equivalent to the input' decided by the reference interpreter",
                text="Machines draw a contract and options, optimize with a log, replay it untouched (must reproduce the file byte for byte) and replay single and double tamperings of the log from 13 operators; an accepted tampered log must yield blocks equivalent to the input blocks on concrete states.",
                note="trusts vf/evm.py; logged runs use the deterministic greedy back-end; both runs use the same criterion and split policy as the README requires",
                ref="DESIGN.md section 3 C11"),
    "C06": dict(level="exploration", technique="bounded-exhaustive small-vocabulary specifications + Hypothesis-drawn encoder option sets; ALL models of the emitted hard constraints enumerated with z3 (blocking clauses) and each decoded model run by an independent sequence checker; SMT-LIB text validated by a declared-once check + z3's parser; sample decoded through the tool's own model reader",
                text="For every instance the complete projected model set of the emitted hard constraints (or the first 1500 models) is enumerated and every model must decode to a sequence that realizes the specification within the declared bounds; the emitted text must load without sort/arity/declaration errors in both dialects.",
                note="z3 stands in for OptiMathSAT/Barcelogic; exhaustive per instance unless the model cap is hit (reported); instances bounded by init_progr_len <= 8",
                ref="DESIGN.md section 3 C06"),
    "C07": dict(level="exploration", technique="same enumeration engine as C06 + brute-force enumeration of all realizing sequences (E5) + independent cost table: SAT-completeness, affine relation between soft objective and true cost over all models, equality of optima, invariance of the optimum across pruning/bounds option sets",
                text="Per instance and criterion: if the brute-force enumerator finds a realizing sequence inside the bounds the hard constraints must be satisfiable; soft(M) - cost(decode(M)) must be constant over all models; the cheapest model must cost what the cheapest realizing sequence costs; the optimum must not depend on the optional pruning constraints.",
                note="E5 exhaustive within its node budget (else inconclusive, counted); cost = independent static per-instruction figures",
                ref="DESIGN.md section 3 C07"),
}

NOT_YET = {}

ENGINES = [
    ("E1 reference EVM block interpreter", "vf/evm.py", ["C01", "C02", "C03", "C05", "C11"]),
    ("E2 generators (Hypothesis block grammar, corpus harvest+mutation, rule catalogue, states)", "vf/gen.py", ["C01", "C02", "C03", "C04", "C05", "C10", "C12", "C13", "C14", "C16", "C17"]),
    ("E3 specification evaluator and schedule enumerator", "vf/spec_eval.py", ["C02", "C03", "C16"]),
    ("E4 abstract sequence checker", "vf/seqcheck.py", ["C04", "C06", "C07", "C16"]),
    ("E5 brute-force realizing-sequence enumerator", "vf/brute.py", ["C07", "C16"]),
    ("E6 SMT-LIB reader and model enumerator (z3 helper under python3-vt)", "vf/smt/", ["C06", "C07"]),
    ("E7 hermetic executor (forked children / in-process with state reset)", "vf/hermetic.py", ["C01", "C02", "C03", "C10", "C12", "C13"]),
    ("E8 runner: shards, buckets, shrinking, known findings, evidence", "vf/runner.py", ["all"]),
    ("E9 independent cost model", "vf/cost.py", ["C08", "C17", "C07"]),
    ("E10 independent asm-json reader / document generator", "vf/asm.py", ["C09", "C15", "C01"]),
]


def main():
    props = [json.loads(l) for l in open(os.path.join(HERE, "properties.jsonl"))]
    checks = []
    na = []
    for p in props:
        pid = p["id"]
        c = CHECKS.get(pid)
        if c is None or not os.path.exists(os.path.join(HERE, "vf", "props", pid.lower() + ".py")):
            na.append({"property_id": pid, "reason": NOT_YET.get(pid, "check not built yet in this round (planned in DESIGN.md section 3); nothing is claimed for it")})
            continue
        checks.append({
            "property_id": pid,
            "quick_cmd": "./check %s --tier quick" % pid,
            "thorough_cmd": "./check %s --tier thorough" % pid,
            "evidence_file": "evidence/%s.json" % pid,
            "replay_cmd_template": "./check %s --replay {path}" % pid,
            "engine": "vf/props/%s.py" % pid.lower(),
            "level_claimed": {"category": c["level"], "text": c["text"], "design_ref": c["ref"]},
            "level_note": c["note"],
            "technique": c["technique"],
        })
    man = {
        "version": 1,
        "setup_cmd": "./setup.sh",
        "hooks": {"guard": "GASOL_VERIF",
                  "enable": "no source hooks: the harness imports /repo's working tree and rebinds solver paths, scratch directories and module state in-process",
                  "baseline_off_cmd": "cd /repo && /venv/bin/python -m pytest -ra -q -p no:cacheprovider --timeout=900 --continue-on-collection-errors",
                  "source_commits": [], "add_only": True},
        "engines": [{"name": n, "path": p, "serves_properties": s} for n, p, s in ENGINES],
        "checks": checks,
        "notes": "All checks import GASOL from /repo's current working tree at run time (nothing is built or cached). "
                 "VERIF_SEED selects the Hypothesis seeds of every shard; VERIF_PROCS the number of worker processes (default 16).",
        "not_applicable": na,
    }
    with open(os.path.join(HERE, "MANIFEST.json"), "w") as f:
        json.dump(man, f, indent=1)
    print("MANIFEST.json: %d checks, %d not_applicable" % (len(checks), len(na)))


if __name__ == "__main__":
    main()
