#!/usr/bin/env python3
"""Sensitivity table (DESIGN section 6): apply each hand-seeded one-line mutant to a scratch worktree of
/repo (never to /repo itself), run the quick tier of the target checks against it through GASOL_REPO, record
whether a VIOLATION was raised.  usage: tools/mutants.py [ids...]   -> seeded/self_mutants.json / .md"""
import json
import os
import subprocess
import sys
import time

HERE = os.path.dirname(os.path.dirname(os.path.abspath(__file__)))
WT = "/tmp/wt/selfmut"
G = "sfs_generator/gasol_optimization.py"

M = [
 ("M01", G, '''    elif opcode == "ADD":
        inp_vars = instr["inpt_sk"]
        if 0 in inp_vars:''', '''    elif opcode == "ADD":
        inp_vars = instr["inpt_sk"]
        if 0 in inp_vars or 1 in inp_vars:''', ["C03", "C01"], "ADD rule also fires for 1"),
 ("M02", G, '''        if 0 == inp_vars[1]:
            saved_push+=1
            gas_saved_op+=3

            discount_op+=1
            rule = "SUB(X,0)"
            return inp_vars[0]''', '''        if 0 == inp_vars[0]:
            saved_push+=1
            gas_saved_op+=3

            discount_op+=1
            rule = "SUB(X,0)"
            return inp_vars[1]''', ["C03", "C01"], "SUB(X,0) applied to SUB(0,X)"),
 ("M03", G, '''        if inp_vars[0] == 0 and opcode == "GT":''', '''        if inp_vars[0] == 0:''', ["C03"], "GT(0,X) rule applied to SGT"),
 ("M05", G, '''        return 0 if val0 >= 256 else (val1 << val0) % (2**256)''', '''        return 0 if val0 >= 256 else (val1 << val0)''', ["C03"], "shl folding not reduced mod 2^256"),
 ("M06", G, '''                width1 = 1 if ins1.find("mstore8")!=-1 else 32
                width2 = 1 if ins2.find("mstore8")!=-1 else 32
                dep = var1_int < var2_int+width2 and var2_int < var1_int+width1''', '''                width1 = 1 if ins1.find("mstore8")!=-1 else 32
                width2 = 1 if ins2.find("mstore8")!=-1 else 31
                dep = var1_int < var2_int+width2 and var2_int < var1_int+width1''', ["C02", "C01"], "overlap test one byte short"),
 ("M07", G, '''            else:
                dep = True

        else: #two int values''', '''            else:
                dep = False

        else: #two int values''', ["C02", "C01"], "symbolic vs constant address treated as independent"),
 ("M10", G, '''    dg = nx.DiGraph(deps)
    tr = nx.transitive_reduction(dg)
    return list(tr.edges)''', '''    dg = nx.DiGraph(deps)
    tr = nx.transitive_reduction(dg)
    return list(tr.edges)[:-1] if len(tr.edges) > 2 else list(tr.edges)''', ["C02", "C01"], "transitive reduction drops one edge"),
 ("M11", "sfs_generator/ir_block.py", '''            instr = v3+ " = slt(" + v1 + ", "+v2+")"''', '''            instr = v3+ " = lt(" + v1 + ", "+v2+")"''', ["C03", "C01", "C05"], "SLT translated as LT"),
 ("M12", "sfs_generator/ir_block.py", '''        instr = v3+" = " + v1 + "-" + v2''', '''        instr = v3+" = " + v2 + "-" + v1''', ["C03", "C01", "C02"], "SUB operands swapped in the IR"),
 ("M16", "solution_generation/ids2asm.py", '''            value = hex(int(associated_instr['value'][0]))[2:]''', '''            value = str(int(associated_instr['value'][0]))''', ["C01", "C09"], "PUSH value emitted in decimal"),
 ("M17", "solution_generation/optimize_from_sub_blocks.py", '''            if previously_optimized:
                optimized_instructions.append(previous_instructions[instr_idx-1])''', '''            if previously_optimized and sub_block_idx < 2:
                optimized_instructions.append(previous_instructions[instr_idx-1])''', ["C14", "C09", "C01"], "split instruction not re-appended after the 2nd sub-block"),
 ("M19", "gasol_asm.py", '''    if saved_criterion > 0:
        return True
    elif saved_criterion == 0:
        any_improves = False''', '''    if saved_criterion >= 0:
        return True
    elif saved_criterion == 0:
        any_improves = False''', ["C08"], "improves_criterion accepts ties"),
 ("M21", "verification/sfs_verify.py", '''        if not result and not elem_origin["commutative"]:
            return False, reason''', '''        if not result and not elem_origin["commutative"] and elem_origin["disasm"] != "SUB":
            return False, reason''', ["C05"], "checker treats SUB as commutative"),
 ("M22", "verification/sfs_verify.py", '''    if len(dep_origin) != len(dep_opt):
        m_clousure_orig = compute_clousure(dep_origin)''', '''    if len(dep_origin) == len(dep_opt):
        return True
    if len(dep_origin) != len(dep_opt):
        m_clousure_orig = compute_clousure(dep_origin)''', ["C05", "C11"], "dependences compared by length only"),
 ("M24", "gasol_asm.py", '''            eq, reason = compare_asm_block_asm_format(old_block, optimized_block, params)
            print("EQ", eq, reason)

            if not eq:''', '''            eq, reason = compare_asm_block_asm_format(old_block, optimized_block, params)
            print("EQ", eq, reason)

            if not eq and "dependences" not in reason:''', ["C01", "C10"], "blocks failing the dependence comparison are kept"),
 ("M25", "gasol_asm.py", '''                if not eq:
                    raise ValueError(f"Error parsing the log file. [REASON]: {reason}")

                run_code_blocks.append(new_block)''', '''                if not eq and "target stack" in reason:
                    raise ValueError(f"Error parsing the log file. [REASON]: {reason}")

                run_code_blocks.append(new_block)''', ["C11"], "log replay only rejects target-stack differences"),
 ("M26", "smt_encoding/complete_encoding/synthesis_stack_constraints.py", '''                         move(sf, j, 1, k - 1, 0), move(sf, j, k + 1, bs - 1, 0))
    return AssertHard(add_implies(left_term, right_term))


def swapk_encoding_empty''', '''                         move(sf, j, 1, k - 2, 0), move(sf, j, k + 1, bs - 1, 0))
    return AssertHard(add_implies(left_term, right_term))


def swapk_encoding_empty''', ["C06"], "swapk leaves cell k-1 unconstrained"),
 ("M27", "smt_encoding/complete_encoding/synthesis_stack_constraints.py", '''    right_term = add_and(add_not(sf.u(bs - 1, j)), sf.u(k - 1, j), sf.u(0, j + 1),''', '''    right_term = add_and(add_not(sf.u(bs - 1, j)), sf.u(0, j + 1),''', ["C06"], "dupk does not require cell k-1 occupied"),
 ("M29", "smt_encoding/complete_encoding/synthesis_pre_order.py", '''                            for i in range(bounds.lower_bound_theta_value(theta_conflicting1), j)]''', '''                            for i in range(bounds.lower_bound_theta_value(theta_conflicting1), j + 2)]''', ["C06"], "happens-before admits later positions"),
 ("M31", "smt_encoding/complete_encoding/synthesis_soft_constraints.py", '''        wi = cost - previous_cost''', '''        wi = cost''', ["C07"], "grouped soft weights not differences"),
 ("M34", "smt_encoding/constraints/connector_factory.py", '''            # Nested or are flattened
            if type(argument) == Connector and argument.connector_name == "or":''', '''            # Nested or are flattened
            if type(argument) == Connector and argument.connector_name in ("or", "and"):''', ["C18"], "or flattens nested and"),
 ("M35", "smt_encoding/constraints/connector_factory.py", '''        else:
            return _connectors.create_connector_and_simplify("not", lhs)''', '''        else:
            return lhs''', ["C18"], "implies with false rhs returns lhs"),
 ("M36", "sfs_generator/parser_asm.py", '''    modifier_depth = instruction.get("modifierDepth", None)''', '''    modifier_depth = None''', ["C15", "C09"], "modifierDepth dropped"),
 ("M37", "sfs_generator/parser_asm.py", '''                    val_representation = hex(int(val))[2:]''', '''                    val_representation = hex(int(val, 16))[2:]''', ["C15"], "PUSHn decimal read as hex"),
 ("M38", "sfs_generator/asm_bytecode.py", '''    return constants.push0_enabled and disasm == "PUSH" and value == "0"''', '''    return disasm == "PUSH" and value == "0"''', ["C17", "C08"], "is_push0 ignores the flag"),
 ("M39", G, '''    obj["disasm"] = "PUSH" if value != 0 or not constants.push0_enabled else "PUSH0"''', '''    obj["disasm"] = "PUSH" if value != 0 else "PUSH0"''', ["C17"], "PUSH0 instruction generated regardless of the flag"),
 ("M40", G, '''    global non_aliasing_disabled
    
    init_globals()
    
    if storage:''', '''    global non_aliasing_disabled
    
    if storage:''', ["C12"], "smt_translate_block no longer resets globals"),
 ("M42", G, '''    u_dict_sort = sorted(u_dict.keys())''', '''    u_dict_sort = list(set(u_dict.keys()))''', ["C13"], "user instructions built in set order"),
 ("M43", G, '''    while (i<len(split_list) and split_list[i]<max_bound):''', '''    while (i<len(split_list) and split_list[i]<=max_bound+3):''', ["C14", "C16"], "partition threshold changed"),
 ("M46", "gasol_asm.py", '''    try:
        return _compare_asm_block_asm_format(old_block, new_block, params)
    except Exception as e:''', '''    try:
        return _compare_asm_block_asm_format(old_block, new_block, params)
    except KeyError as e:''', ["C10"], "comparison only contains KeyError"),
 ("M47", "gasol_asm.py", '''        if not c.has_asm_field or (params.contract is not None and c.shortened_name != params.contract):''', '''        if not c.has_asm_field:''', ["C17"], "-c filter ignored"),
 ("M48", "sfs_generator/asm_bytecode.py", '''            json_bytecode["value"] = self.real_value''', '''            json_bytecode["value"] = self.value''', ["C09", "C15", "C01"], "to_json emits value instead of real_value"),
 ("M49", "greedy/block_generation.py", None, None, ["C04"], "placeholder (greedy mutants come from the sub-agents)"),
]


def sh(cmd, **kw):
    return subprocess.run(cmd, shell=True, stdout=subprocess.PIPE, stderr=subprocess.STDOUT, text=True, **kw)


def main():
    want = set(sys.argv[1:])
    if not os.path.isdir(WT):
        print(sh("git -C /repo worktree add -q --detach %s HEAD" % WT).stdout)
    results = []
    for mid, path, old, new, checks, what in M:
        if old is None or (want and mid not in want):
            continue
        sh("git -C %s checkout -q -- ." % WT)
        sh("git -C %s checkout -q --detach %s" % (WT, sh("git -C /repo rev-parse HEAD").stdout.strip()))
        full = os.path.join(WT, path)
        src = open(full).read()
        if src.count(old) != 1:
            results.append({"id": mid, "what": what, "error": "pattern occurs %d times" % src.count(old)})
            print(mid, "PATTERN PROBLEM", src.count(old))
            continue
        open(full, "w").write(src.replace(old, new))
        imp = sh("cd %s && /venv/bin/python -W ignore -c 'import gasol_asm'" % WT)
        rec = {"id": mid, "what": what, "file": path, "checks": {}}
        if imp.returncode != 0:
            rec["error"] = "does not import"
        for c in checks:
            t0 = time.time()
            r = sh("cd %s && GASOL_REPO=%s ./check %s --tier quick" % (HERE, WT, c))
            viol = [l for l in r.stdout.splitlines() if l.startswith("VIOLATION")]
            bucket = [l.strip() for l in r.stdout.splitlines() if l.strip().startswith("bucket=")]
            rec["checks"][c] = {"exit": r.returncode, "violations": len(viol), "first_bucket": (bucket[0][:200] if bucket else None),
                                "wall_s": round(time.time() - t0, 1)}
            print(mid, c, "exit", r.returncode, len(viol), "violations", (bucket[0][:120] if bucket else ""), flush=True)
        rec["detected_by"] = [c for c, v in rec["checks"].items() if v["exit"] == 1]
        results.append(rec)
        sh("git -C %s checkout -q -- ." % WT)
        prev = []
        outp = os.path.join(HERE, "seeded", "self_mutants.json")
        if os.path.exists(outp):
            prev = [r for r in json.load(open(outp)) if r["id"] not in {x["id"] for x in results}]
        json.dump(sorted(prev + results, key=lambda r: r["id"]), open(outp, "w"), indent=1)
    sh("git -C /repo worktree remove --force %s" % WT)


if __name__ == "__main__":
    main()
