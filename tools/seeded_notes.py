#!/usr/bin/env python3
"""adds to every seeded/<id>/meta.json what the change is and what it needs to manifest (as reported by the sub-agent
that wrote it and confirmed by running its demo), plus how the checks were run"""
import json
import os

HERE = os.path.dirname(os.path.dirname(os.path.abspath(__file__)))
NOTES = {
 "s01_memwidth_swap": ("are_dependent: access widths of MSTORE and MSTORE8 exchanged in the byte-range overlap test",
                       "an MSTORE8 and a word access (MSTORE/MLOAD/KECCAK256) at constant addresses 1..31 bytes apart in one block"),
 "s03_sdiv_shl_sar": ("strength reduction DIV(X,SHL(Y,1)) -> SHR(Y,X) extended to SDIV -> SAR",
                      "rules on; SDIV whose divisor is 1<<y with symbolic y; a dividend that is negative as a signed word"),
 "s04_greedy_must_reverse": ("greedy: operand order of a non-commutative instruction decided wrongly when both operands are already on top",
                             "a non-commutative instruction whose two operands sit on top of the stack in reverse order and are not needed again"),
 "s05_checker_ternary_commutative": ("verification: ADDMOD/MULMOD treated as commutative in all three operands",
                                     "two blocks that differ by exchanging the modulus with a summand/factor of ADDMOD/MULMOD"),
 "s06_comm_encoding_bottom_slot": ("Max-SMT stack constraints of commutative instructions do not preserve the cell below the operands",
                                   "a commutative uninterpreted instruction with at least one further stack element underneath"),
 "s07_upper_bound_depth": ("position upper bound of an instruction reduced once per level of its dependency tree",
                           "a specification whose instruction feeds a chain of >= 2 dependent instructions; position bounds enabled (default)"),
 "s08_push0_flag_copied": ("PUSH0 flag imported by value into one module", "-push0 given and a literal zero push in the input"),
 "s09_shared_data_addresses": ("AsmContract.data_addresses turned into a class-level dictionary",
                               "a document with >= 2 contracts where an earlier one has a string-valued .data entry"),
 "s10_xor_rule_loop_hang": ("loop increment mis-indented in the XOR(X,XOR(X,Y)) rule", "rules on; that XOR shape; final stack holds another value"),
 "s11_replay_verify_cache": ("log replay verifies a block only the first time its (source stack, instructions) occur",
                             "a contract containing the same optimizable block twice and a log tampered at the later occurrence"),
 "s12_stale_modified_userdef_vals": ("unification map modified_userdef_vals no longer reset per block",
                                     "an earlier block computing a commutative operation in both operand orders; a later block storing a variable of the same name"),
 "s13_greedy_forced_set_order": ("greedy iterates over the set of forced-in-stack variables unsorted",
                                 ">= 2 loads kept across a store that may alias them and whose stored value is built from them; different PYTHONHASHSEED"),
 "s14_rebuild_drops_trailing_split": ("rebuild skips a sub-block that consists of the split instruction only",
                                      "a split instruction as last optimizable instruction and the sub-block before it replaced"),
 "s15_push0_drops_modifier_depth": ("jumpType/modifierDepth dropped when a zero push becomes PUSH0", "PUSH0 enabled; a zero push item carrying modifierDepth"),
 "s16_all_pops_top_prefix": ("check_all_pops generalised to 'pops only' blocks but tests the wrong end of the stack",
                             "a sub-block of stack operations whose target stack is a strict top prefix of its source stack (SWAP1 POP)"),
 "s17_push0_flag_import_by_value": ("parser reads the PUSH0 flag at import time", "-push0 and a literal zero push in the input"),
 "s18_connector_eq_arity": ("Connector.__eq__ loses the arity check for commutative connectors", "two commutative connectors of different arity sharing a prefix"),
 "s19_exp_zero_base_rule": ("new rule EXP(0,X) -> 0", "rules on; EXP with literal base 0 and a run-time exponent equal to 0"),
 "s20_load_nearest_store_only": ("a load is ordered only with the nearest dependent store on each side",
                                 "a load that may alias two stores which are provably disjoint from each other (unaligned straddle or symbolic load address)"),
 "s21_greedy_dup17": ("greedy 'within reach' window widened from 16 to 17 elements", "an operand first found at stack index 16 that must be duplicated (not consumed by SWAP16)"),
 "s22_mul_shl_keeps_commutative": ("MUL(X,SHL(Y,1)) -> SHL rewrite leaves commutative=True on the new SHL",
                                   "rules on; MUL by 1<<y or 2**y with symbolic y; value above the shift amount on the stack, both used once"),
 "s23_checker_memo_across_subblocks": ("checker memo of compared variable pairs shared by all sub-blocks of a block",
                                       "two blocks with a split instruction that differ only after it, at a variable pair already compared equal before it"),
 "s24_store_load_preorder_off_by_one": ("store->load happens-before constraint not emitted for the last admissible store position",
                                        "direct memory encoding; a store->load dependence; slack so that the load can precede the store's last position"),
 "s25_at_most_once_all_uninterpreted": ("'used at most once' pruning applied to every uninterpreted instruction instead of stores",
                                        "gas criterion, direct memory encoding; a 2-gas zero-argument opcode needed twice (CALLER CALLER)"),
 "s26_selfbalance_gas": ("SELFBALANCE moved to the 2-gas class", "a block using SELFBALANCE (twice for a costlier output)"),
 "s27_copy_contract_loses_sourcelist": ("contract rebuilt field by field instead of deep-copied: sourceList forgotten", "combined-json input whose asm carries sourceList"),
 "s28_search_depth_counter_leak": ("recursion-depth guard whose counter is not unwound on exceptions nor reset per block",
                                   "a block whose analysis fails inside the value search (PC, or a very deep chain) followed by other blocks"),
 "s29_replay_ignores_push0_flag": ("log replay branch runs before the PUSH0 flag is applied", "-push0 and a zero push in the input"),
 "s30_greedy_computed_memo_default": ("greedy helper computed() memoised in a mutable default argument keyed by local names",
                                      "an earlier and a later block both with load/store dependences, colliding names, different data flow"),
 "s31_deps_sorted_by_numeric_suffix": ("dependent accesses taken from a set and sorted by numeric suffix only",
                                       "one load result used by two later accesses of different kinds with the same index; different PYTHONHASHSEED"),
 "s32_target_stack_string_max": ("top operand of a value-less split instruction chosen by string comparison", "operands straddling s(9)/s(10): >= 11 stack elements at the split"),
 "s33_pushn_strip_leading_zeros": ("plain-text reader strips leading zeros of PUSHn 0x.. operands", "a zero constant written PUSHn 0x0.. (also produced by the -bl output with PUSH0 disabled)"),
 "s34_ub_seed_depth": ("upper-bound seed reduced by the depth of the result in the target stack", "an instruction whose result ends at depth >= 2 of the target stack under cheap elements"),
 "s35_zero_push_priced_in_table": ("cost table prices PUSH 0 as PUSH0 regardless of the flag", "-push0 and a zero push; gas criterion and a duplicated zero for a wrong replacement"),
 "s37_assignimmutable_by_name": ("rebuild re-inserts the splitting instruction looked up by name instead of by position",
                                 "a block with two ASSIGNIMMUTABLE of different ids and an improvable sub-block before the first one"),
 "s38_restoring_store_dropped": ("'second identical store is useless' also tolerates other stores in between (only hashes were allowed)",
                                 "MSTORE(x,y); an overlapping or possibly aliasing store; MSTORE(x,y) again"),
 "s39_addmod_fold_wraps": ("constant folding of ADDMOD/MULMOD reduces the sum/product modulo 2^256 before taking the modulus",
                           "three constant operands whose sum/product reaches 2^256 and a modulus that does not divide 2^256"),
 "s40_target_stack_skips_duplicates": ("checker skips target-stack positions whose element already occurred in the original's target stack",
                                       "the original leaves one element at two positions and the other block differs at the deeper occurrence"),
 "s41_store_empty_cell_unconstrained": ("-empty encoding: after a store only one of the two vacated cells is constrained to be empty",
                                        "-empty; a store executed when the stack height equals max_sk_sz"),
 "s42_kept_message_raises_without_tag": ("the 'initial block is kept' message concatenates old_block.tag, an int for blocks without tag",
                                         "a block without tag (first block / fall-through) whose comparison fails or whose analysis fails"),
 "s43_reset_only_on_success": ("init_globals() moved from the start of smt_translate_block to its normal return path",
                               "a block whose translation raises after a rule fired (PC under an EVAL), immediately followed by a block translated as a whole"),
 "s44_lvars_conflicts_set_order": ("l_vars conflict constraints built from a set of string ids",
                                   "-memory-encoding l_vars and an instruction with >= 2 predecessors that carry an l variable; different PYTHONHASHSEED"),
 "s36_not_comparison_swapped": ("not(a<b) simplified to b<a (converse instead of negation)", "a negated order comparison whose operands evaluate to the same integer"),
}
for name, (what, needs) in NOTES.items():
    mp = os.path.join(HERE, "seeded", name, "meta.json")
    if not os.path.exists(mp):
        continue
    m = json.load(open(mp))
    m["what_it_changes"] = what
    m["needs_to_manifest"] = needs
    m["how_confirmed"] = ("tools/eval_seeded.py in a scratch git worktree of /repo under /tmp: demo.py run with the change and with the change "
                          "reversed (git apply -R), the pinned pytest command compared per test with /root/.vp/BASELINE.json stable_pass, then "
                          "each listed check as `GASOL_REPO=<worktree> ./check <ID> --tier quick`; the worktree was removed afterwards")
    json.dump(m, open(mp, "w"), indent=1)
    print("noted", name)
