"""E6 helper -- runs under python3-vt (z3 Python API).  One JSON object per line in, one out.

ops:
  enumerate: {text, b0, t_prefix, cap, theta_names (list or null), push_basic}
     -> {sat, models: [{t: [...], a: [...], soft: int, sexpr: str?}], exhaustive, parse_error?, wellformed: {...}}
  sat_with: {text, assignment: [theta values]} -> {sat}
"""
import json
import re
import sys

import z3


def split_lines(text):
    hard, softs, other = [], [], []
    for line in text.splitlines():
        s = line.strip()
        if not s:
            continue
        if s.startswith("(assert-soft "):
            softs.append(s)
        elif s.startswith("(assert ") or s.startswith("(declare-") or s.startswith("(define-"):
            hard.append(s)
        else:
            other.append(s)
    return hard, softs, other


SOFT_RE = re.compile(r"^\(assert-soft (.*) :weight (-?\d+)(?: :id (\S+))?\)$")


def parse_soft(line):
    m = SOFT_RE.match(line)
    if not m:
        raise ValueError("unreadable assert-soft: %s" % line[:120])
    return m.group(1), int(m.group(2)), m.group(3)


def wellformed(text):
    """syntactic well-formedness: every symbol declared exactly once; z3 accepts the whole problem"""
    res = {"ok": True, "problems": []}
    decl = {}
    for m in re.finditer(r"\(declare-(?:fun|const|sort) (\S+)", text):
        decl[m.group(1)] = decl.get(m.group(1), 0) + 1
    dups = [k for k, v in decl.items() if v > 1]
    if dups:
        res["ok"] = False
        res["problems"].append("declared more than once: %s" % dups[:5])
    body = "\n".join(l for l in text.splitlines() if not l.strip().startswith(("(check-sat", "(get-", "(minimize", "(set-option", "(exit")))
    try:
        o = z3.Optimize()
        o.from_string(body)
    except z3.Z3Exception as e:
        res["ok"] = False
        res["problems"].append("z3 rejects the text: %s" % str(e)[:200])
    if "(set-logic" not in text:
        res["ok"] = False
        res["problems"].append("no set-logic")
    return res


def enumerate_models(job):
    text = job["text"]
    b0 = job["b0"]
    cap = job.get("cap", 2000)
    hard, softs, other = split_lines(text)
    soft_parsed = [parse_soft(s) for s in softs]
    full = "\n".join(hard) + "\n" + "\n".join("(assert %s)" % f for f, _, _ in soft_parsed)
    try:
        vec = z3.parse_smt2_string(full)
    except z3.Z3Exception as e:
        return {"parse_error": str(e)[:300]}
    n_hard = sum(1 for h in hard if h.startswith("(assert "))
    hard_f = [vec[i] for i in range(n_hard)]
    soft_f = [vec[i] for i in range(n_hard, len(vec))]
    if len(soft_f) != len(soft_parsed):
        return {"parse_error": "soft constraint count mismatch"}
    s = z3.Solver()
    s.set("timeout", job.get("timeout_ms", 20000))
    for f in hard_f:
        s.add(f)
    # the t_j / a_j / theta_k constants, by name, from the declarations
    decls = {}
    for d in re.finditer(r"\(declare-fun (\S+) \(\) (\S+)\)", "\n".join(hard)):
        decls[d.group(1)] = d.group(2)
    sorts = {}

    def const(name):
        so = decls[name]
        if so == "Int":
            return z3.Int(name)
        if so == "Bool":
            return z3.Bool(name)
        if so not in sorts:
            sorts[so] = z3.DeclareSort(so)
        return z3.Const(name, sorts[so])
    tvars = [const("t_%d" % j) for j in range(job.get("first", 0), job.get("first", 0) + b0) if ("t_%d" % j) in decls]
    if len(tvars) != b0:
        return {"parse_error": "t_j variables missing: found %d of %d" % (len(tvars), b0)}
    avars = [const("a_%d" % j) for j in range(b0) if ("a_%d" % j) in decls]
    theta_names = sorted((n for n in decls if re.fullmatch(r"theta_\d+", n)), key=lambda x: int(x.split("_")[1]))
    thetas = [const(n) for n in theta_names]
    models = []
    exhaustive = True
    status = None
    while True:
        r = s.check()
        if status is None:
            status = str(r)
        if r != z3.sat:
            if r == z3.unknown:
                exhaustive = False
            break
        m = s.model()
        tv = []
        block = []
        for t in tvars:
            if thetas:
                k = None
                for name, th in zip(theta_names, thetas):
                    if z3.is_true(m.eval(t == th, model_completion=True)):
                        k = int(name.split("_")[1])
                        block.append(t != th)
                        break
                tv.append(k)
            else:
                v = m.eval(t, model_completion=True)
                tv.append(v.as_long())
                block.append(t != v)
        av = []
        for a in avars:
            v = m.eval(a, model_completion=True)
            try:
                av.append(v.as_long())
            except Exception:
                av.append(str(v))
        soft = 0
        for f, (_, w, _) in zip(soft_f, soft_parsed):
            if not z3.is_true(m.eval(f, model_completion=True)):
                soft += w
        rec = {"t": tv, "a": av, "soft": soft}
        if len(models) < job.get("sexpr_for", 0):
            rec["sexpr"] = m.sexpr()
        models.append(rec)
        if len(models) >= cap:
            exhaustive = False
            break
        s.add(z3.Or(block))
    return {"status": status, "models": models, "exhaustive": exhaustive, "n_soft": len(soft_f), "theta_names": theta_names}


def main():
    out = sys.stdout
    for line in sys.stdin:
        line = line.strip()
        if not line:
            continue
        job = json.loads(line)
        try:
            if job.get("op") == "quit":
                break
            if job["op"] == "enumerate":
                res = enumerate_models(job)
                if job.get("wellformed"):
                    res["wellformed"] = wellformed(job["text"])
            elif job["op"] == "wellformed":
                res = {"wellformed": wellformed(job["text"])}
            else:
                res = {"error": "unknown op"}
        except Exception as e:  # noqa
            res = {"error": "%s: %s" % (type(e).__name__, str(e)[:300])}
        out.write(json.dumps(res) + "\n")
        out.flush()


if __name__ == "__main__":
    main()
