"""client side of the E6 helper (spawns python3-vt vf/smt/server.py)"""
import json
import os
import shutil
import subprocess


class HelperError(Exception):
    pass


class Z3Helper:
    def __init__(self):
        exe = shutil.which("python3-vt") or "/opt/veriftools/pyvenv/bin/python"
        here = os.path.dirname(os.path.abspath(__file__))
        env = dict(os.environ)
        env.pop("PYTHONPATH", None)
        env.pop("PYTHONHASHSEED", None)
        self.p = subprocess.Popen([exe, os.path.join(here, "server.py")], stdin=subprocess.PIPE, stdout=subprocess.PIPE,
                                  stderr=subprocess.DEVNULL, text=True, bufsize=1, env=env)

    def ask(self, job):
        try:
            self.p.stdin.write(json.dumps(job) + "\n")
            self.p.stdin.flush()
            line = self.p.stdout.readline()
        except (BrokenPipeError, OSError) as e:
            raise HelperError("z3 helper died: %s" % e)
        if not line:
            raise HelperError("z3 helper died")
        return json.loads(line)

    def close(self):
        try:
            self.p.stdin.write(json.dumps({"op": "quit"}) + "\n")
            self.p.stdin.flush()
            self.p.wait(timeout=5)
        except Exception:
            self.p.kill()
