"""helpers shared by the property modules: obtaining specifications / optimized blocks from
GASOL (always through hermetic children) and comparing them with the reference interpreter."""
import random
from . import evm, asm, hermetic, spec_eval, states


import contextlib

ISOLATED = False      # True: every GASOL call in a fresh forked child; False: in-process with state reset


@contextlib.contextmanager
def isolated(flag=True):
    global ISOLATED
    old = ISOLATED
    ISOLATED = flag
    try:
        yield
    finally:
        ISOLATED = old


def gasol(fn, *args, cpu=60):
    if ISOLATED:
        return hermetic.call(fn, *args, cpu=cpu)
    return hermetic.local(fn, *args, timeout=min(cpu, 30))


def confirmed(fails, redo, stats=None):
    """keep only the failures that reproduce when the case is re-run in a fresh forked child"""
    if not fails or ISOLATED:
        return fails
    with isolated():
        again = redo()
    kinds = set(x.kind for x in again)
    keep = [f for f in fails if f.kind in kinds]
    if stats is not None and len(keep) != len(fails):
        stats.classes["in-process-only failure (not reproduced in a fresh process; dropped)"] += len(fails) - len(keep)
    return keep


def lib_order(instrs):
    seen = []
    for n, a in instrs:
        if n == "PUSHLIB" and a not in seen:
            seen.append(a)
    return seen


def get_specs(instrs, argv, cpu=60):
    """-> hermetic Result whose value is the list produced by hermetic.spec_of_items"""
    items = asm.instrs_to_items(instrs)
    return gasol(hermetic.spec_of_items, items, list(argv), cpu=cpu)


def get_specs_multi(jobs, cpu=120):
    """jobs: list of (instrs, argv) -> Result with value = list (per job) of spec_of_items lists"""
    return gasol(hermetic.specs_multi, [(asm.instrs_to_items(i), list(a)) for i, a in jobs], cpu=cpu)


def segment_instrs(S, liborder=None):
    """the instructions a specification claims to be derived from (its original_instrs field).
    GASOL replaces PUSHLIB operands by per-block indices in its plain text; map them back."""
    seg = asm.parse_plain(S["original_instrs"])
    if liborder:
        out = []
        for n, a in seg:
            if n == "PUSHLIB":
                try:
                    a = liborder[int(a)]
                except (ValueError, IndexError):
                    pass
            out.append((n, a))
        seg = out
    return seg


def check_spec_against_block(S, instrs, rng, n_states=24, lin_cap=120, lin_samples=12, use_grid=False,
                             liborder=None):
    """evaluate specification S against block instrs.
    returns dict(status= ok|mismatch|fault|nodomain, reason, state, lin, n_lin, exhaustive, evals)"""
    res = {"status": "ok", "evals": 0, "n_lin": 0, "exhaustive": True, "discards": 0}
    try:
        sp = spec_eval.Spec(S, liborder=liborder or lib_order(instrs))
        lins, exh = sp.linearizations(cap=lin_cap, samples=lin_samples, rng=rng)
    except spec_eval.SpecFault as e:
        res.update(status="fault", reason=str(e))
        return res
    res["n_lin"] = len(lins)
    res["exhaustive"] = exh
    need, _ = evm.need_and_delta(instrs)
    need = max(need, len(sp.src))
    a_sl, s_sl = evm.address_slots(instrs, need)
    sts = []
    if use_grid:
        sts += states.grid_states(need, rng, a_sl | s_sl)
    sts += states.make_states(rng, need, a_sl, s_sl, count=n_states)
    reached = 0
    for si, state in enumerate(sts):
        # all linearizations on the first states, then rotate through them
        if si < 4 or len(lins) <= 2:
            todo = lins
        else:
            todo = [lins[0], lins[(si * 7) % len(lins)], lins[(si * 13 + 1) % len(lins)]]
        for L in todo:
            try:
                r = spec_eval.compare_with_block(sp, L, instrs, state)
            except evm.OutOfDomain:
                res["discards"] += 1
                break
            except evm.StackUnderflow:
                res.update(status="fault", reason="block underflows on a stack of its own need")
                return res
            except spec_eval.SpecFault as e:
                res.update(status="fault", reason=str(e), state=state.to_json(), lin=L)
                return res
            res["evals"] += 1
            if r is not None:
                res.update(status="mismatch", reason=r, state=state.to_json(), lin=L, lin0=lins[0])
                return res
        else:
            reached += 1
    if reached == 0:
        res["status"] = "nodomain"
    return res


def some_order_matches(S, instrs, state_json, cap=5040):
    """True if some admissible linearization of S agrees with the block on this state"""
    try:
        sp = spec_eval.Spec(S, liborder=lib_order(instrs))
        if sp.count_linearizations(cap) > cap:
            return False
        st = evm.State.from_json(state_json)
        for L in sp.all_linearizations():
            try:
                if spec_eval.compare_with_block(sp, L, instrs, st) is None:
                    return True
            except (spec_eval.SpecFault, evm.OutOfDomain):
                continue
    except Exception:
        return False
    return False


def replay_spec_state(S, instrs, state_json, lin, liborder=None):
    sp = spec_eval.Spec(S, liborder=liborder or lib_order(instrs))
    return spec_eval.compare_with_block(sp, lin, instrs, evm.State.from_json(state_json))


def compare_blocks(orig, new, rng, n_states=24, use_grid=False, extra_states=()):
    """observational equivalence of two instruction lists (E1).
    returns dict(status= ok|differ|underflow|nodomain, reason, state)"""
    need, _ = evm.need_and_delta(orig)
    a_sl, s_sl = evm.address_slots(orig, need)
    sts = list(extra_states)
    if use_grid:
        sts += states.grid_states(need, rng, a_sl | s_sl)
    sts += states.make_states(rng, need, a_sl, s_sl, count=n_states)
    res = {"status": "ok", "evals": 0, "discards": 0}
    reached = 0
    for state in sts:
        try:
            ra = evm.run(orig, state)
        except evm.OutOfDomain:
            res["discards"] += 1
            continue
        try:
            rb = evm.run(new, state)
        except evm.StackUnderflow:
            res.update(status="underflow", reason="optimized block underflows on a stack the original runs on",
                       state=state.to_json())
            return res
        except evm.OutOfDomain:
            res.update(status="differ", reason="optimized block leaves the memory domain the original stays in",
                       state=state.to_json())
            return res
        reached += 1
        res["evals"] += 1
        d = evm.difference(ra, rb)
        if d is not None:
            res.update(status="differ", reason=d, state=state.to_json())
            return res
    if reached == 0:
        res["status"] = "nodomain"
    return res
