"""E9 -- independent cost model (bytes, static gas, length) for solc assembly items.
Written from solc's AssemblyItem::bytesRequired and the Yellow Paper / EIP-2929/3529/3855 tables;
never imports /repo."""
from . import evm


def nbytes(v):
    return max(1, (v.bit_length() + 7) // 8)


def item_size(ins, push0=True):
    name, arg = ins
    if name == "PUSH":
        if arg == 0 and push0:
            return 1
        return 1 + nbytes(arg)
    if name == "PUSH0":
        return 1 if push0 else 2
    if name in ("PUSH [tag]", "PUSH data", "PUSH [$]"):
        return 3
    if name in ("PUSH #[$]", "PUSHSIZE"):
        return 5
    if name in ("PUSHLIB", "PUSHDEPLOYADDRESS"):
        return 21
    if name == "PUSHIMMUTABLE":
        return 33
    if name == "ASSIGNIMMUTABLE":
        return 35
    if name == "tag":
        return 0
    return 1


G_ZERO, G_JUMPDEST, G_BASE, G_VERYLOW, G_LOW, G_MID, G_HIGH = 0, 1, 2, 3, 5, 8, 10
GAS = {}
for _n in ("STOP", "RETURN", "REVERT", "INVALID"):
    GAS[_n] = G_ZERO
for _n in ("ADDRESS", "ORIGIN", "CALLER", "CALLVALUE", "CALLDATASIZE", "CODESIZE", "GASPRICE", "COINBASE", "TIMESTAMP",
           "NUMBER", "DIFFICULTY", "PREVRANDAO", "GASLIMIT", "POP", "PC", "MSIZE", "GAS", "RETURNDATASIZE", "CHAINID",
           "BASEFEE"):
    GAS[_n] = G_BASE
for _n in ("ADD", "SUB", "NOT", "LT", "GT", "SLT", "SGT", "EQ", "ISZERO", "AND", "OR", "XOR", "BYTE", "SHL", "SHR", "SAR",
           "CALLDATALOAD", "MLOAD", "MSTORE", "MSTORE8", "CALLDATACOPY", "CODECOPY", "RETURNDATACOPY"):
    GAS[_n] = G_VERYLOW
for _n in ("MUL", "DIV", "SDIV", "MOD", "SMOD", "SIGNEXTEND", "SELFBALANCE"):
    GAS[_n] = G_LOW
for _n in ("ADDMOD", "MULMOD", "JUMP"):
    GAS[_n] = G_MID
GAS.update({"JUMPI": G_HIGH, "JUMPDEST": G_JUMPDEST, "tag": 0, "EXP": 10, "KECCAK256": 30, "SHA3": 30, "BLOCKHASH": 20,
            "LOG0": 375, "LOG1": 750, "LOG2": 1125, "LOG3": 1500, "LOG4": 1875, "CREATE": 32000, "CREATE2": 32000,
            "SELFDESTRUCT": 5000})
COLD_ACCOUNT, WARM, COLD_SLOAD = 2600, 100, 2100
ACCOUNT_OPS = {"BALANCE", "EXTCODESIZE", "EXTCODEHASH", "EXTCODECOPY", "CALL", "CALLCODE", "DELEGATECALL", "STATICCALL"}


def item_gas_static(ins, push0=True, warm=False):
    """static part of the gas of one item (dynamic parts excluded on both sides)"""
    name, arg = ins
    if name == "PUSH":
        return G_BASE if (arg == 0 and push0) else G_VERYLOW
    if name == "PUSH0":
        return G_BASE
    if name.startswith("PUSH"):
        return G_VERYLOW
    if name.startswith("DUP") or name.startswith("SWAP"):
        return G_VERYLOW
    if name == "ASSIGNIMMUTABLE":
        return 0
    if name in ACCOUNT_OPS:
        return WARM if warm else COLD_ACCOUNT
    if name == "SLOAD":
        return WARM if warm else COLD_SLOAD
    if name == "SSTORE":
        return 100 if warm else 2200     # lower bound of the static part (value dependent)
    return GAS[name]


def block_costs(instrs, push0=True):
    size = sum(item_size(i, push0) for i in instrs)
    length = sum(1 for i in instrs if i[0] != "tag")
    return size, length


# ---- specification-level naive size (C03 size gating)
def _spec_instr_size(u, push0=True):
    d = u["disasm"]
    if d == "PUSH":
        return item_size(("PUSH", int(u["value"][0])), push0)
    if d == "PUSH0":
        return 1 if push0 else 2
    return item_size((d, None), push0)


def naive_spec_size(S, push0=True):
    """sum of the sizes of the uninterpreted instructions (each once) + a PUSH for every integer
    operand occurrence that is not an instruction of its own"""
    tot = 0
    for u in S["user_instrs"]:
        tot += _spec_instr_size(u, push0)
        for x in u["inpt_sk"]:
            if isinstance(x, int):
                tot += item_size(("PUSH", x), push0)
    for x in S["tgt_ws"]:
        if isinstance(x, int):
            tot += item_size(("PUSH", x), push0)
    return tot


def spec_is_tree(S):
    """every produced variable is consumed at most once (no sharing)"""
    uses = {}
    for u in S["user_instrs"]:
        for x in u["inpt_sk"]:
            if isinstance(x, str):
                uses[x] = uses.get(x, 0) + 1
    for x in S["tgt_ws"]:
        if isinstance(x, str):
            uses[x] = uses.get(x, 0) + 1
    prod = set(o for u in S["user_instrs"] for o in u.get("outpt_sk", []))
    return all(uses.get(v, 0) <= 1 for v in prod)


# ---- block-level gas under the access-list convention (independent symbolic executor)
# Assumptions (stated in every evidence file that uses them): EXP is priced with a one-byte
# exponent (10 + 50), KECCAK256 / copies / logs without their per-word and per-byte parts,
# SSTORE as a reset (2900) plus the cold surcharge, CALL-family 100; within a block the first
# access to a syntactically identical storage key / account is cold, later ones warm.
STATIC = dict(GAS)
STATIC.update({"EXP": 60, "CALL": 100, "CALLCODE": 100, "DELEGATECALL": 100, "STATICCALL": 100, "INVALID": 0,
               "ASSIGNIMMUTABLE": 0, "SELFDESTRUCT": 5000, "EXTCODECOPY": None, "BALANCE": None, "EXTCODESIZE": None,
               "EXTCODEHASH": None, "SLOAD": None, "SSTORE": None})
ACCOUNT_KEYED = ("BALANCE", "EXTCODESIZE", "EXTCODEHASH", "EXTCODECOPY")


def symbolic_gas(instrs, push0=True):
    need, _ = evm.need_and_delta(instrs)
    st = [("in", i) for i in reversed(range(need))]          # top = last
    slots, accounts = set(), set()
    total = 0
    for name, arg in instrs:
        top = st[-1] if st else None
        if name == "SLOAD":
            total += 100 if top in slots else 2100
            slots.add(top)
        elif name == "SSTORE":
            total += (0 if top in slots else 2100) + 2900
            slots.add(top)
        elif name in ACCOUNT_KEYED:
            total += 100 if top in accounts else 2600
            accounts.add(top)
        elif name == "PUSH":
            total += 2 if (arg == 0 and push0) else 3
        elif name == "PUSH0":
            total += 2
        elif name.startswith("PUSH") or name.startswith("DUP") or name.startswith("SWAP"):
            total += 3
        else:
            total += STATIC[name]
        # symbolic effect
        if name.startswith("DUP"):
            st.append(st[-int(name[3:])])
        elif name.startswith("SWAP"):
            k = int(name[4:])
            st[-1], st[-k - 1] = st[-k - 1], st[-1]
        else:
            a, p = evm.ARITY[name]
            ops = tuple(st.pop() for _ in range(a))
            if p:
                if name == "PUSH":
                    st.append(("c", arg))
                elif a == 0:
                    st.append((name, evm.pseudo_key(name, arg) if arg is not None else None))
                else:
                    st.append((name,) + ops)
    return total


def block_figures(instrs, push0=True):
    """(gas, size, length) of a full basic block (tags and terminals included)"""
    return symbolic_gas(instrs, push0), sum(item_size(i, push0) for i in instrs), sum(1 for i in instrs if i[0] != "tag")


def improves(criterion, old, new):
    """the documented acceptance rule, restated: strictly better in the criterion, or equal in it,
    no worse in the others and strictly better in at least one of them"""
    g0, s0, l0 = old
    g1, s1, l1 = new
    sg, ss, sl = g0 - g1, s0 - s1, l0 - l1
    if criterion == "size":
        main, others = ss, (sg,)
    elif criterion == "length":
        main, others = sl, (sg, ss)
    else:
        main, others = sg, (ss,)
    if main > 0:
        return True
    if main < 0:
        return False
    return all(o >= 0 for o in others) and any(o > 0 for o in others)
