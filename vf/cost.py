"""E9 -- independent cost model (bytes, static gas, length) for solc assembly items.
Written from solc's AssemblyItem::bytesRequired and the Yellow Paper / EIP-2929/3529/3855 tables;
never imports /repo."""
from . import evm


def nbytes(v):
    return max(1, (v.bit_length() + 7) // 8)


def item_size(ins, push0=True):
    name, arg = ins
    if name == "PUSH":
        if arg == 0 and push0:
            return 1
        return 1 + nbytes(arg)
    if name == "PUSH0":
        return 1 if push0 else 2
    if name in ("PUSH [tag]", "PUSH data", "PUSH [$]"):
        return 3
    if name in ("PUSH #[$]", "PUSHSIZE"):
        return 5
    if name in ("PUSHLIB", "PUSHDEPLOYADDRESS"):
        return 21
    if name == "PUSHIMMUTABLE":
        return 33
    if name == "ASSIGNIMMUTABLE":
        return 35
    if name == "tag":
        return 0
    return 1


G_ZERO, G_JUMPDEST, G_BASE, G_VERYLOW, G_LOW, G_MID, G_HIGH = 0, 1, 2, 3, 5, 8, 10
GAS = {}
for _n in ("STOP", "RETURN", "REVERT", "INVALID"):
    GAS[_n] = G_ZERO
for _n in ("ADDRESS", "ORIGIN", "CALLER", "CALLVALUE", "CALLDATASIZE", "CODESIZE", "GASPRICE", "COINBASE", "TIMESTAMP",
           "NUMBER", "DIFFICULTY", "PREVRANDAO", "GASLIMIT", "POP", "PC", "MSIZE", "GAS", "RETURNDATASIZE", "CHAINID",
           "BASEFEE"):
    GAS[_n] = G_BASE
for _n in ("ADD", "SUB", "NOT", "LT", "GT", "SLT", "SGT", "EQ", "ISZERO", "AND", "OR", "XOR", "BYTE", "SHL", "SHR", "SAR",
           "CALLDATALOAD", "MLOAD", "MSTORE", "MSTORE8", "CALLDATACOPY", "CODECOPY", "RETURNDATACOPY"):
    GAS[_n] = G_VERYLOW
for _n in ("MUL", "DIV", "SDIV", "MOD", "SMOD", "SIGNEXTEND", "SELFBALANCE"):
    GAS[_n] = G_LOW
for _n in ("ADDMOD", "MULMOD", "JUMP"):
    GAS[_n] = G_MID
GAS.update({"JUMPI": G_HIGH, "JUMPDEST": G_JUMPDEST, "tag": 0, "EXP": 10, "KECCAK256": 30, "SHA3": 30, "BLOCKHASH": 20,
            "LOG0": 375, "LOG1": 750, "LOG2": 1125, "LOG3": 1500, "LOG4": 1875, "CREATE": 32000, "CREATE2": 32000,
            "SELFDESTRUCT": 5000})
COLD_ACCOUNT, WARM, COLD_SLOAD = 2600, 100, 2100
ACCOUNT_OPS = {"BALANCE", "EXTCODESIZE", "EXTCODEHASH", "EXTCODECOPY", "CALL", "CALLCODE", "DELEGATECALL", "STATICCALL"}


def item_gas_static(ins, push0=True, warm=False):
    """static part of the gas of one item (dynamic parts excluded on both sides)"""
    name, arg = ins
    if name == "PUSH":
        return G_BASE if (arg == 0 and push0) else G_VERYLOW
    if name == "PUSH0":
        return G_BASE
    if name.startswith("PUSH"):
        return G_VERYLOW
    if name.startswith("DUP") or name.startswith("SWAP"):
        return G_VERYLOW
    if name == "ASSIGNIMMUTABLE":
        return 0
    if name in ACCOUNT_OPS:
        return WARM if warm else COLD_ACCOUNT
    if name == "SLOAD":
        return WARM if warm else COLD_SLOAD
    if name == "SSTORE":
        return 100 if warm else 2200     # lower bound of the static part (value dependent)
    return GAS[name]


def block_costs(instrs, push0=True):
    size = sum(item_size(i, push0) for i in instrs)
    length = sum(1 for i in instrs if i[0] != "tag")
    return size, length


# ---- specification-level naive size (C03 size gating)
def _spec_instr_size(u, push0=True):
    d = u["disasm"]
    if d == "PUSH":
        return item_size(("PUSH", int(u["value"][0])), push0)
    if d == "PUSH0":
        return 1 if push0 else 2
    return item_size((d, None), push0)


def naive_spec_size(S, push0=True):
    """sum of the sizes of the uninterpreted instructions (each once) + a PUSH for every integer
    operand occurrence that is not an instruction of its own"""
    tot = 0
    for u in S["user_instrs"]:
        tot += _spec_instr_size(u, push0)
        for x in u["inpt_sk"]:
            if isinstance(x, int):
                tot += item_size(("PUSH", x), push0)
    for x in S["tgt_ws"]:
        if isinstance(x, int):
            tot += item_size(("PUSH", x), push0)
    return tot


def spec_is_tree(S):
    """every produced variable is consumed at most once (no sharing)"""
    uses = {}
    for u in S["user_instrs"]:
        for x in u["inpt_sk"]:
            if isinstance(x, str):
                uses[x] = uses.get(x, 0) + 1
    for x in S["tgt_ws"]:
        if isinstance(x, str):
            uses[x] = uses.get(x, 0) + 1
    prod = set(o for u in S["user_instrs"] for o in u.get("outpt_sk", []))
    return all(uses.get(v, 0) <= 1 for v in prod)
