"""E2.3 -- rule catalogue: exhaustive enumeration of rewrite-rule / folding templates.

Templates are expression trees compiled to stack code; variables are input stack words.
Nothing here is sampled: ``templates(tier)`` yields the same finite list every time."""
from . import evm

B = evm.M256
BIN = ["ADD", "MUL", "SUB", "DIV", "SDIV", "MOD", "SMOD", "EXP", "SIGNEXTEND", "LT", "GT", "SLT",
       "SGT", "EQ", "AND", "OR", "XOR", "BYTE", "SHL", "SHR", "SAR"]
UN = ["ISZERO", "NOT"]
CONST_Q = [0, 1, 2, 0x20, 0xFF, 0x100, (1 << 160) - 1, 1 << 255, B - 1]
CONST_T = [0, 1, 2, 3, 0x1F, 0x20, 0x21, 0xFF, 0x100, 0x101, (1 << 160) - 1, 1 << 160, (1 << 255) - 1, 1 << 255,
           (1 << 255) + 1, B - 2, B - 1]
CONST_S = [0, 1, 2, B - 1]        # for two-level terms


def V(i): return ("var", i)
def C(c): return ("const", c)
def E(name): return ("env", name)


def nvars(e):
    if e[0] == "var":
        return e[1] + 1
    if e[0] in ("const", "env"):
        return 0
    return max([nvars(x) for x in e[1:]] + [0])


def compile_expr(e, depth, out):
    """emit code leaving value(e) on top; ``depth`` = words currently above the input words"""
    k = e[0]
    if k == "var":
        out.append(("DUP%d" % (depth + e[1] + 1), None))
    elif k == "const":
        out.append(("PUSH", e[1]))
    elif k == "env":
        out.append((e[1], None))
    else:
        args = e[1:]
        d = depth
        for a in reversed(args):
            compile_expr(a, d, out)
            d += 1
        out.append((k, None))


def show(e):
    k = e[0]
    if k == "var":
        return "XYZW"[e[1]]
    if k == "const":
        return hex(e[1]) if e[1] > 9 else str(e[1])
    if k == "env":
        return e[1]
    return "%s(%s)" % (k, ",".join(show(a) for a in e[1:]))


CONTEXTS_Q = ["keep", "drop"]
CONTEXTS_T = ["keep", "drop", "store", "twice", "isz", "used2"]


def wrap(e, ctx):
    """full template body for expression e in context ctx"""
    n = nvars(e)
    out = []
    compile_expr(e, 0, out)
    if ctx == "keep":
        pass
    elif ctx == "drop":
        for _ in range(n):
            out += [("SWAP1", None), ("POP", None)]
    elif ctx == "store":
        out += [("PUSH", 0x80), ("MSTORE", None)]
    elif ctx == "twice":
        out += [("DUP1", None), ("PUSH", 0x80), ("MSTORE", None), ("PUSH", 0xA0), ("MSTORE", None)]
    elif ctx == "isz":
        out += [("ISZERO", None)]
    elif ctx == "used2":
        out += [("DUP1", None), ("ISZERO", None)]
    else:
        raise ValueError(ctx)
    return out


def _exprs(tier):
    consts = CONST_Q if tier == "quick" else CONST_T
    X, Y, Z = V(0), V(1), V(2)
    # A. binary
    for op in BIN:
        yield "bin", (op, X, Y)
        yield "bin", (op, X, X)
        for c in consts:
            yield "bin", (op, X, C(c))
            yield "bin", (op, C(c), X)
            for c2 in consts:
                yield "fold", (op, C(c), C(c2))
    # B. unary
    for op in UN:
        yield "un", (op, X)
        for c in consts:
            yield "fold", (op, C(c))
    # C. ternary
    tc = [0, 1, 2, 7, B - 1]
    for op in ("ADDMOD", "MULMOD"):
        yield "ter", (op, X, Y, Z)
        yield "ter", (op, X, X, Y)
        for c in tc:
            yield "ter", (op, X, Y, C(c))
            yield "ter", (op, C(c), X, Y)
            for c2 in tc:
                for c3 in tc:
                    yield "fold", (op, C(c), C(c2), C(c3))
    # D. generic two-level terms
    leaves = [(X, Y), (X, X)] + [(X, C(c)) for c in CONST_S] + [(C(c), X) for c in CONST_S]
    outer_other = [Z, X, Y] + [C(c) for c in CONST_S]
    for op1 in BIN:
        for (a, b) in leaves:
            inner = (op1, a, b)
            for op2 in UN:
                yield "two", (op2, inner)
            if tier == "quick" and (a, b) not in ((X, Y), (X, C(0)), (C(0), X)):
                continue
            for op2 in BIN:
                for o in outer_other:
                    if tier == "quick" and (o[0] == "const" and o[1] != 0 or o == Y):
                        continue
                    if o == Z and (a, b) != (X, Y):
                        o = Y
                    yield "two", (op2, inner, o)
                    yield "two", (op2, o, inner)
    for op1 in UN:
        for op2 in BIN:
            for o in [Y, X, C(0), C(1), C(B - 1)]:
                yield "two", (op2, (op1, X), o)
                yield "two", (op2, o, (op1, X))
    # E. unary chains over comparisons and over variables
    cmp_ops = ["LT", "GT", "SLT", "SGT", "EQ", "SUB", "XOR", "AND", "OR"]
    bases = [X] + [(op, X, Y) for op in cmp_ops] + [(op, X, C(0)) for op in cmp_ops] + \
            [(op, C(0), X) for op in cmp_ops] + [(op, X, C(1)) for op in cmp_ops] + [(op, C(1), X) for op in cmp_ops]
    for b in bases:
        for chain in (("ISZERO", "ISZERO"), ("ISZERO", "ISZERO", "ISZERO"), ("ISZERO",) * 4, ("NOT", "NOT"),
                      ("NOT", "ISZERO"), ("ISZERO", "NOT"), ("NOT", "NOT", "NOT"), ("ISZERO",) * 5):
            e = b
            for u in chain:
                e = (u, e)
            yield "chain", e
        yield "chain", ("EQ", ("ISZERO", b), C(1))
        yield "chain", ("EQ", C(1), ("ISZERO", b))
        yield "chain", ("EQ", ("ISZERO", b), C(0))
    # F. specific contexts rules
    mask = C((1 << 160) - 1)
    for env in ("CALLER", "ORIGIN", "ADDRESS", "COINBASE", "CALLVALUE", "TIMESTAMP"):
        yield "spec", ("AND", E(env), mask)
        yield "spec", ("AND", mask, E(env))
        yield "spec", ("AND", E(env), C((1 << 159) - 1))
    yield "spec", ("BALANCE", E("ADDRESS"))
    yield "spec", ("BALANCE", E("CALLER"))
    yield "spec", ("BALANCE", X)
    for c in (0, 1, 2, 3, 256, B - 1):
        yield "spec", ("EXP", C(c), X)
        yield "spec", ("EXP", X, C(c))
    # every binary operation applied to a power of two written as a shift / exponentiation of a variable amount
    # (signed and unsigned twins of each strength-reduction rule)
    for inner in (("SHL", Y, C(1)), ("SHR", Y, C(1 << 255)), ("SAR", Y, C(1 << 255)), ("EXP", C(2), Y), ("SHL", Y, C(2))):
        for op in BIN:
            yield "spec", (op, X, inner)
            yield "spec", (op, inner, X)
    for sh in ("SHL", "SHR", "SAR"):
        for one in (C(1), C(2), C(0)):
            yield "spec", ("MUL", X, (sh, Y, one))
            yield "spec", ("MUL", (sh, Y, one), X)
            yield "spec", ("DIV", X, (sh, Y, one))
            yield "spec", ("DIV", (sh, Y, one), X)
            yield "spec", ("MUL", X, (sh, one, Y))
            yield "spec", ("DIV", X, (sh, one, Y))
        yield "spec", ("AND", (sh, X, Y), (sh, X, Z))
        yield "spec", ("AND", (sh, X, Y), (sh, Z, Y))
        yield "spec", ("OR", (sh, X, Y), (sh, X, Z))
    for o1 in ("AND", "OR", "XOR"):
        for o2 in ("AND", "OR", "XOR"):
            yield "spec", (o2, (o1, X, Y), X)
            yield "spec", (o2, (o1, X, Y), Y)
            yield "spec", (o2, X, (o1, X, Y))
            yield "spec", (o2, Y, (o1, X, Y))
            yield "spec", (o2, (o1, X, Y), (o1, X, Y))
            yield "spec", (o2, X, ("NOT", X))
            yield "spec", (o2, ("NOT", X), X)
            yield "spec", (o2, ("NOT", X), ("NOT", Y))


def templates(tier="quick"):
    """list of (label, instrs).  Finite and fully enumerated."""
    ctxs = CONTEXTS_Q if tier == "quick" else CONTEXTS_T
    seen = set()
    out = []
    for fam, e in _exprs(tier):
        for ctx in ctxs:
            if fam == "fold" and ctx not in ("keep", "store"):
                continue
            if tier == "quick" and fam == "two" and ctx != "keep":
                continue
            if fam == "two" and ctx not in ("keep", "drop", "store"):
                continue
            code = wrap(e, ctx)
            key = tuple(code)
            if key in seen:
                continue
            seen.add(key)
            out.append(("%s:%s:%s" % (fam, show(e), ctx), code))
    out += memory_templates(tier)
    out += sharing_templates()
    return out


def memory_templates(tier):
    """store/load/hash pairs over aliasing address patterns.  Input words: X (address), Y, Z values"""
    out = []
    deltas = [0, 1, 31, 32, 33] if tier == "quick" else [0, 1, 2, 30, 31, 32, 33, 63, 64]

    def addr_const(c): return [("PUSH", c)]
    def addr_var(depth): return [("DUP%d" % (depth + 1), None)]                 # X

    def addr_var_plus(depth, d):
        return [("DUP%d" % (depth + 1), None), ("PUSH", d), ("ADD", None)] if d else addr_var(depth)

    pats = []
    for d in deltas:
        pats.append(("c%d/c%d" % (0x80, 0x80 + d), lambda dp, d=d: addr_const(0x80), lambda dp, d=d: addr_const(0x80 + d)))
        pats.append(("c%d/c%d" % (0x80 + d, 0x80), lambda dp, d=d: addr_const(0x80 + d), lambda dp, d=d: addr_const(0x80)))
        pats.append(("X/X+%d" % d, lambda dp, d=d: addr_var(dp), lambda dp, d=d: addr_var_plus(dp, d)))
        pats.append(("X+%d/X" % d, lambda dp, d=d: addr_var_plus(dp, d), lambda dp, d=d: addr_var(dp)))
    pats.append(("X/c", lambda dp: addr_var(dp), lambda dp: addr_const(0x80)))
    pats.append(("c/X", lambda dp: addr_const(0x80), lambda dp: addr_var(dp)))
    pats.append(("X/W", lambda dp: addr_var(dp), lambda dp: [("DUP%d" % (dp + 4), None)]))

    # stack on entry: X Y Z W (X top).  helper pushes value Y / Z by DUP
    def val(dp, i): return [("DUP%d" % (dp + 1 + i), None)]

    stores = ["MSTORE", "MSTORE8", "SSTORE"]
    loads = {"MSTORE": "MLOAD", "MSTORE8": "MLOAD", "SSTORE": "SLOAD"}
    for pname, a1, a2 in pats:
        for s1 in stores:
            for s2 in stores:
                if (s1 == "SSTORE") != (s2 == "SSTORE"):
                    continue
                # store ; store
                code = val(0, 1) + a1(1) + [(s1, None)] + val(0, 2) + a2(1) + [(s2, None)]
                out.append(("mem:%s;%s:%s" % (s1, s2, pname), code))
                # store ; load ; store (dead-store / forwarding with an intervening load)
                code = val(0, 1) + a1(1) + [(s1, None)] + a2(0) + [(loads[s2], None)] + val(1, 2) + a1(2) + [(s1, None)]
                out.append(("mem:%s;%s;%s:%s" % (s1, loads[s2], s1, pname), code))
            # store ; load
            code = val(0, 1) + a1(1) + [(s1, None)] + a2(0) + [(loads[s1], None)]
            out.append(("mem:%s;%s:%s" % (s1, loads[s1], pname), code))
            # load ; store ; load
            code = a1(0) + [(loads[s1], None)] + val(1, 1) + a2(2) + [(s1, None)] + a1(1) + [(loads[s1], None)]
            out.append(("mem:%s;%s;%s:%s" % (loads[s1], s1, loads[s1], pname), code))
            if s1 != "SSTORE":
                # store ; hash ; store
                code = val(0, 1) + a1(1) + [(s1, None)] + [("PUSH", 0x40)] + a2(1) + [("KECCAK256", None)] + \
                       val(1, 2) + a1(2) + [(s1, None)]
                out.append(("mem:%s;KECCAK;%s:%s" % (s1, s1, pname), code))
                # hash ; store ; hash
                code = [("PUSH", 0x20)] + a1(1) + [("KECCAK256", None)] + val(1, 1) + a2(2) + [(s1, None)] + \
                       [("PUSH", 0x20)] + a1(2) + [("KECCAK256", None)]
                out.append(("mem:KECCAK;%s;KECCAK:%s" % (s1, pname), code))
        # load ; load
        for l in ("MLOAD", "SLOAD"):
            code = a1(0) + [(l, None)] + a2(1) + [(l, None)]
            out.append(("mem:%s;%s:%s" % (l, l, pname), code))
        # store of the value just loaded (from the same or a nearby place), with every store kind
        for s1 in stores:
            code = a1(0) + [(loads[s1], None)] + a2(1) + [(s1, None)]
            out.append(("mem:%s->%s:%s" % (loads[s1], s1, pname), code))
            code = a1(0) + [(loads[s1], None)] + a2(1) + [(s1, None)] + a1(0) + [(loads[s1], None)]
            out.append(("mem:%s->%s;%s:%s" % (loads[s1], s1, loads[s1], pname), code))
        # the same store twice / the same value to two places
        for s1 in stores:
            code = val(0, 1) + a1(1) + [(s1, None)] + val(0, 1) + a1(1) + [(s1, None)]
            out.append(("mem:%s twice:%s" % (s1, pname), code))
            code = val(0, 1) + a1(1) + [(s1, None)] + val(0, 1) + a2(1) + [(s1, None)]
            out.append(("mem:%s same value:%s" % (s1, pname), code))
    return out


def sharing_templates():
    """rule patterns whose inner instruction is used again (the rule must not make it disappear)"""
    out = []
    I = lambda *names: [(n, None) for n in names]
    tails = [I("ADD"), I("SWAP1", "POP"), [("PUSH", 0)] + I("MSTORE"), [], I("DUP2", "SSTORE")]
    for cmp_ in ("LT", "GT", "SLT", "SGT", "EQ", "ISZERO", "SUB", "XOR", "AND"):
        for mid in (I("ISZERO", "DUP1", "ISZERO"), I("ISZERO", "ISZERO", "DUP1", "ISZERO"), I("ISZERO", "DUP1", "ISZERO", "ISZERO"),
                    I("DUP1", "ISZERO", "ISZERO"), I("ISZERO", "DUP1", "ISZERO", "DUP1", "ISZERO"), I("NOT", "DUP1", "NOT"),
                    I("DUP1", "NOT", "NOT")):
            for t in tails:
                out.append(("share:%s %s %s" % (cmp_, " ".join(x for x, _ in mid), " ".join(str(x) for x, _ in t)), I(cmp_) + mid + t))
    for op in ("ADD", "MUL", "AND", "OR", "XOR", "SUB"):
        for c in (0, 1):
            # OP(X, c) with the intermediate shared
            out.append(("share:%s c%d dup" % (op, c), [("PUSH", c)] + I(op, "DUP1") + [("PUSH", c)] + I(op, "ADD")))
            out.append(("share:dup %s c%d" % (op, c), I("DUP1") + [("PUSH", c)] + I(op, "DUP1", "SWAP2", "XOR", "ADD")))
    return out
