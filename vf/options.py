"""option matrices (Appendix B of DESIGN.md)"""
from hypothesis import strategies as st

SPLIT = [[], ["-storage"], ["-partition"]]
CRIT = [[], ["-size"], ["-length"]]
RULES = [[], ["-no-simplification"]]
PUSH0 = [[], ["-push0"]]
GREEDY = ["-greedy"]
UBG_Z3 = ["-ub-greedy", "-solver", "z3", "-tout", "1", "-direct-tout"]
SMT_Z3 = ["-solver", "z3", "-tout", "1", "-direct-tout"]
SMT_OMS = ["-solver", "oms", "-tout", "1", "-direct-tout"]
BACKENDS = [GREEDY, UBG_Z3, SMT_Z3, SMT_OMS]


def pipeline_options(backends=(GREEDY,)):
    return st.builds(lambda a, b, c, d, e: list(a) + list(b) + list(c) + list(d) + list(e),
                     st.sampled_from(SPLIT), st.sampled_from(CRIT), st.sampled_from(RULES), st.sampled_from(PUSH0),
                     st.sampled_from(list(backends)))


def all_pipeline_options(backends=(GREEDY,)):
    out = []
    for a in SPLIT:
        for b in CRIT:
            for c in RULES:
                for d in PUSH0:
                    for e in backends:
                        out.append(list(a) + list(b) + list(c) + list(d) + list(e))
    return out


def label(argv):
    keep = [a for a in argv if a in ("-storage", "-partition", "-size", "-length", "-no-simplification", "-push0",
                                     "-greedy", "-ub-greedy")]
    if "-solver" in argv:
        keep.append("solver=" + argv[argv.index("-solver") + 1])
    return " ".join(keep) or "default"


ENCODER_FLAGS = [["-push-basic"], ["-pop-uninterpreted"], ["-empty"], ["-order-bounds"], ["-order-conflicts"], ["-at-most"], ["-pushed-once"],
                 ["-no-output-before-pop"], ["-direct-inequalities"]]
TERM_ENCODINGS = [[], ["-term-encoding", "int"], ["-term-encoding", "stack_vars"], ["-term-encoding", "uninterpreted_int"]]
MEM_ENCODINGS = [[], ["-memory-encoding", "l_vars"]]


def encoder_options():
    """random subset of the encoder flags + term/memory encoding"""
    return st.builds(lambda flags, t, m: [x for f in flags for x in f] + list(t) + list(m),
                     st.lists(st.sampled_from(ENCODER_FLAGS), max_size=4, unique_by=lambda f: f[0]),
                     st.sampled_from(TERM_ENCODINGS), st.sampled_from(MEM_ENCODINGS))
