"""E10 (part) -- synthetic solc combined-json documents built from generated blocks, and block
alignment between an input and an emitted document."""
import json
from . import asm

AUX = "a2646970667358221220c0ffee00000000000000000000000000000000000000000000000000000000000064736f6c63430008130033"


def stream(blocks, start=0):
    """concatenate blocks (lists of (name,arg)) into one item stream, making sure consecutive
    blocks stay separate basic blocks (a tag is inserted where needed)"""
    items = []
    pos = start
    prev_open = False
    tagno = 9000
    for b in blocks:
        b = list(b)
        if prev_open and (not b or b[0][0] != "tag"):
            tagno += 1
            b = [("tag", str(tagno)), ("JUMPDEST", None)] + b
        for ins in b:
            items.append(asm.instr_to_item(ins, begin=pos, end=pos + 2, source=0))
            pos += 3
        prev_open = bool(b) and b[-1][0] not in ("JUMP", "JUMPI", "STOP", "RETURN", "REVERT", "INVALID")
    return items


def make_document(init_blocks, run_blocks, name="t.sol:C", version="0.8.19+commit.7dd6d404.Linux.g++",
                  extra_contracts=None, source_list=True, data_extra=None):
    asm_c = {".code": stream(init_blocks)}
    if source_list:
        asm_c["sourceList"] = ["t.sol", "#utility.yul"]
    sub = {".auxdata": AUX, ".code": stream(run_blocks, start=100000)}
    if data_extra:
        sub[".data"] = data_extra
    asm_c[".data"] = {"0": sub}
    doc = {"contracts": {name: {"asm": asm_c}}, "version": version}
    for k, v in (extra_contracts or {}).items():
        doc["contracts"][k] = v
    return doc


def code_streams(doc):
    """yield (contract, path, items)"""
    for cname, c in doc.get("contracts", {}).items():
        a = c.get("asm") if isinstance(c, dict) else None
        if not a:
            continue
        for path, code in asm.walk_codes(a):
            yield cname, path, code


def aligned_blocks(doc_in, doc_out):
    """list of (where, items_in, items_out) pairs of basic blocks, or raises ValueError when the
    two documents cannot be aligned (different streams / different number of blocks)"""
    a = list(code_streams(doc_in))
    b = list(code_streams(doc_out))
    if [(x[0], x[1]) for x in a] != [(x[0], x[1]) for x in b]:
        raise ValueError("code streams differ: %s vs %s" % ([(x[0], x[1]) for x in a], [(x[0], x[1]) for x in b]))
    out = []
    for (c, p, ia), (_, _, ib) in zip(a, b):
        ba, bb = asm.split_blocks(ia), asm.split_blocks(ib)
        if len(ba) != len(bb):
            raise ValueError("%s %s: %d blocks in, %d blocks out" % (c, "/".join(p), len(ba), len(bb)))
        for k, (x, y) in enumerate(zip(ba, bb)):
            out.append(("%s %s #%d" % (c, "/".join(p), k), x, y))
    return out
