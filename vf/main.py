"""check <ID> --tier quick|thorough [--replay file]"""
import os
import sys
import json
import argparse
import importlib
import traceback


def main():
    ap = argparse.ArgumentParser()
    ap.add_argument("prop")
    ap.add_argument("--tier", default=os.environ.get("VERIF_TIER", "quick"), choices=["quick", "thorough"])
    ap.add_argument("--replay", default=None)
    a = ap.parse_args()
    try:
        seed = int(os.environ.get("VERIF_SEED", "1"))
    except ValueError:
        seed = 1
    try:
        mod = importlib.import_module("vf.props." + a.prop.lower())
    except Exception:
        traceback.print_exc()
        print("harness error: no such property module", a.prop, file=sys.stderr)
        return 2
    from vf import runner, hermetic
    try:
        if a.replay:
            hermetic.setup_repo()
            d = json.load(open(a.replay))
            case = d.get("case", d)
            from vf import pipeline
            with pipeline.isolated():
                fails = mod.replay_case(case)
            if fails:
                for f in fails:
                    print("VIOLATION property=%s replay=%s" % (mod.ID, a.replay))
                    print("  bucket=%s :: %s" % (f.bucket, f.what))
                return 1
            print("replay: property held on", a.replay)
            return 0
        return mod.main(a.tier, seed)
    except runner.HarnessError as e:
        print("harness error:", e, file=sys.stderr)
        return 2
    except Exception:
        traceback.print_exc()
        print("harness error", file=sys.stderr)
        return 2
    finally:
        hermetic.cleanup()


if __name__ == "__main__":
    sys.exit(main())
