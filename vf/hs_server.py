"""C13 helper: a long-lived GASOL process started with a given PYTHONHASHSEED.
protocol: one JSON object per line on stdin -> one JSON object per line on stdout (fd 3 style:
we keep the real stdout for the protocol and silence everything the tool prints)."""
import json
import os
import sys


def main():
    out = os.fdopen(os.dup(1), "w")
    sys.path.insert(0, os.path.dirname(os.path.dirname(os.path.abspath(__file__))))
    from vf import hermetic
    hermetic.setup_repo()
    hermetic.local_init()          # redirects fd 1/2 to /dev/null, chdir to own scratch
    from vf.props import c13
    out.write(json.dumps({"ready": True, "hashseed": os.environ.get("PYTHONHASHSEED"), "pid": os.getpid()}) + "\n")
    out.flush()
    for line in sys.stdin:
        line = line.strip()
        if not line:
            continue
        job = json.loads(line)
        if job.get("quit"):
            break
        fn = c13.observe
        if job.get("call"):
            # "package.module:function" -- the function receives the job
            import importlib
            mod, name = job["call"].split(":")
            fn = getattr(importlib.import_module(mod), name)
        r = hermetic.local(fn, job, timeout=job.get("timeout", 60))
        res = {"kind": r.kind, "value": r.value if r.kind == "ok" else str(r.info)[:300]}
        out.write(json.dumps(res, sort_keys=True, default=str) + "\n")
        out.flush()
    hermetic.cleanup()


if __name__ == "__main__":
    main()
