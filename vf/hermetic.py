"""E7 -- hermetic execution of GASOL code in forked children of a pristine zygote.

The harness process imports /repo once (``setup_repo``) and never runs GASOL in-process:
every case runs in ``call`` -> os.fork(), so module globals, constants.split_block, the
pandas state etc. never leak between cases.
"""
import os
import sys
import io
import pickle
import shutil
import signal
import resource
import tempfile
import traceback
import warnings
import time

REPO = os.environ.get("GASOL_REPO", "/repo")
_BASE = None
_SETUP = False


def base_dir():
    global _BASE
    if _BASE is None or not os.path.isdir(_BASE):
        root = "/dev/shm" if os.path.isdir("/dev/shm") and os.access("/dev/shm", os.W_OK) else tempfile.gettempdir()
        _BASE = tempfile.mkdtemp(prefix="gvf_%d_" % os.getpid(), dir=root)
    return _BASE


def forget_base():
    global _BASE, _LOCAL_READY
    _BASE = None
    _LOCAL_READY = False


def cleanup():
    global _BASE
    if _BASE and os.path.isdir(_BASE):
        shutil.rmtree(_BASE, ignore_errors=True)
    _BASE = None


def setup_repo(solver="/usr/bin/z3"):
    """import GASOL into this (zygote) process; rebind solver executables to stand-ins."""
    global _SETUP
    if _SETUP:
        return
    warnings.filterwarnings("ignore", category=SyntaxWarning)
    sys.dont_write_bytecode = True
    if REPO not in sys.path:
        sys.path.insert(0, REPO)
    out, err = sys.stdout, sys.stderr
    try:
        import gasol_asm  # noqa
        import smt_encoding.solver.z3_executable as zx
        import smt_encoding.solver.oms_executable as ox
        import global_params.paths as paths
        here = os.path.dirname(os.path.dirname(os.path.abspath(__file__)))
        zx.z3_exec = solver
        paths.z3_exec = solver
        oms = os.path.join(here, "standin", "optimathsat")
        ox.oms_exec = oms
        paths.oms_exec = oms
        snapshot_globals()
    finally:
        sys.stdout, sys.stderr = out, err
    _SETUP = True


def _child_setup(scratch, cpu, mem_gb, quiet):
    import global_params.paths as paths
    os.chdir(scratch)
    paths.tmp_path = scratch + "/"
    paths.gasol_folder = "g"
    paths.gasol_path = scratch + "/g/"
    paths.json_path = paths.gasol_path + "jsons"
    paths.smt_encoding_path = paths.gasol_path + "smt_encoding/"
    paths.solutions_path = paths.gasol_path + "solutions/"
    paths.dot_path = paths.gasol_path + "dot/"
    paths.csv_file = paths.gasol_path + "solutions/statistics.csv"
    os.environ["TMPDIR"] = scratch
    tempfile.tempdir = scratch
    if cpu:
        resource.setrlimit(resource.RLIMIT_CPU, (int(cpu), int(cpu) + 3))
        signal.signal(signal.SIGXCPU, _on_alarm)      # soft limit: raise inside the tool so that the stack is reported
    if mem_gb:
        lim = int(mem_gb * (1 << 30))
        resource.setrlimit(resource.RLIMIT_AS, (lim, lim))
    if quiet:
        dn = os.open(os.devnull, os.O_WRONLY)
        os.dup2(dn, 1)
        os.dup2(dn, 2)
        sys.stdout = open(os.devnull, "w")
        sys.stderr = sys.stdout


class Result:
    __slots__ = ("kind", "value", "info", "cpu_s")

    def __init__(self, kind, value=None, info=None, cpu_s=0.0):
        self.kind = kind        # ok | exc | killed | timeout
        self.value = value
        self.info = info
        self.cpu_s = cpu_s

    def __repr__(self):
        return "Result(%s, %r, %r)" % (self.kind, (repr(self.value)[:80]), self.info)


def call(fn, *args, cpu=60, mem_gb=6, wall=None, quiet=True):
    """run fn(*args) in a forked child; returns Result."""
    from . import runner
    runner.beat()
    scratch = tempfile.mkdtemp(prefix="c_", dir=base_dir())
    r, w = os.pipe()
    sys.stdout.flush()
    sys.stderr.flush()
    pid = os.fork()
    if pid == 0:
        code = 0
        try:
            os.close(r)
            signal.signal(signal.SIGINT, signal.SIG_DFL)
            _child_setup(scratch, cpu, mem_gb, quiet)
            if _SNAP is not None and _LOCAL_READY:
                reset_globals()        # the parent may have run the tool in-process: start from the pristine snapshot
            try:
                val = ("ok", fn(*args))
            except CaseTimeout as e:
                tb = traceback.extract_tb(e.__traceback__)
                val = ("cputime", [(f.filename, f.lineno, f.name) for f in tb][-60:])
            except SystemExit as e:
                val = ("exit", e.code)
            except BaseException as e:  # noqa
                tb = traceback.extract_tb(e.__traceback__)
                frames = [(f.filename, f.lineno, f.name) for f in tb]
                val = ("exc", (type(e).__name__, str(e)[:500], frames[-12:]))
            data = pickle.dumps(val, protocol=4)
            with os.fdopen(w, "wb") as f:
                f.write(data)
        except BaseException:
            code = 3
        finally:
            os._exit(code)
    os.close(w)
    chunks = []
    deadline = time.time() + (wall if wall else (cpu or 600) * 3 + 30)
    timed_out = False
    with os.fdopen(r, "rb") as f:
        import select
        while True:
            left = deadline - time.time()
            if left <= 0:
                timed_out = True
                break
            rl, _, _ = select.select([f], [], [], min(left, 5.0))
            if rl:
                b = os.read(f.fileno(), 1 << 20)
                if not b:
                    break
                chunks.append(b)
    if timed_out:
        try:
            os.kill(pid, signal.SIGKILL)
        except ProcessLookupError:
            pass
    _, status, ru = os.wait4(pid, 0)
    cpu_s = ru.ru_utime + ru.ru_stime
    shutil.rmtree(scratch, ignore_errors=True)
    if timed_out:
        return Result("timeout", None, "wall clock", cpu_s)
    if os.WIFSIGNALED(status):
        return Result("killed", None, "signal %d" % os.WTERMSIG(status), cpu_s)
    data = b"".join(chunks)
    if not data:
        return Result("killed", None, "no result (exit %d)" % os.WEXITSTATUS(status), cpu_s)
    kind, val = pickle.loads(data)
    if kind == "ok":
        return Result("ok", val, None, cpu_s)
    if kind == "exit":
        return Result("ok", None, "exit %r" % (val,), cpu_s)
    if kind == "cputime":
        return Result("timeout", None, ("CPU budget (RLIMIT_CPU soft limit)", val), cpu_s)
    return Result("exc", None, val, cpu_s)


# ------------------------------------------------------------------ in-process execution (shards)
# Forking is the scarce resource on this machine (~100 forks/s system-wide, no matter how many
# cores fork), so bulk checks run GASOL inside the shard process and reset the module state the
# tool mutates at the top of every case; every failure is confirmed in a fresh forked child
# (``call``) before it is reported.
_LOCAL_READY = False


class CaseTimeout(BaseException):
    pass


_ARMED = [False]


def _on_alarm(signum, frame):
    # only while a tool call is in progress: a (repeating) timer that fires after the call has returned, inside the
    # harness' own handlers, must not escape as an exception
    if _ARMED[0] or signum == signal.SIGXCPU:
        raise CaseTimeout()


_SNAP = None
_DATA_TYPES = (bool, int, float, str, type(None), list, dict, set, tuple, frozenset)


def _stateful_modules():
    import importlib
    names = ["sfs_generator.gasol_optimization", "sfs_generator.ir_block", "global_params.constants", "gasol_asm",
             "greedy.block_generation", "sfs_generator.opcodes", "sfs_generator.utils"]
    return [importlib.import_module(n) for n in names]


def _hidden_state_holders():
    """mutable state of the tool that lives outside module globals: mutable default arguments of functions / methods and
    mutable class attributes, in every module of the repository that is loaded -> list of (label, container)"""
    import types
    out = []
    seen = set()

    def add(label, obj):
        if isinstance(obj, (dict, list, set)) and id(obj) not in seen:
            seen.add(id(obj))
            out.append((label, obj))

    def scan_function(label, f):
        for i, d in enumerate(getattr(f, "__defaults__", None) or ()):
            add("%s default#%d" % (label, i), d)
        for k, d in (getattr(f, "__kwdefaults__", None) or {}).items():
            add("%s kwdefault %s" % (label, k), d)
    for name, m in sorted(sys.modules.items()):
        f = getattr(m, "__file__", None)
        if not f or not os.path.abspath(f).startswith(REPO + os.sep):
            continue
        for k, v in list(vars(m).items()):
            if isinstance(v, types.FunctionType) and v.__module__ == name:
                scan_function("%s.%s" % (name, k), v)
            elif isinstance(v, type) and v.__module__ == name:
                for ck, cv in list(vars(v).items()):
                    if ck.startswith("__"):
                        continue
                    fn = cv.__func__ if isinstance(cv, (staticmethod, classmethod)) else cv
                    if isinstance(fn, types.FunctionType):
                        scan_function("%s.%s.%s" % (name, k, ck), fn)
                    else:
                        add("%s.%s.%s" % (name, k, ck), cv)
    return out


_HIDDEN = None


def snapshot_globals():
    """remember the data globals of GASOL's stateful modules, and the hidden mutable state (default arguments, class
    attributes) of every repository module, as they are in a process that has imported the tool but processed nothing"""
    global _SNAP, _HIDDEN
    import copy
    if _SNAP is not None:
        return
    snap = {}
    for m in _stateful_modules():
        d = {}
        for k, v in vars(m).items():
            if k.startswith("__") or not isinstance(v, _DATA_TYPES):
                continue
            try:
                d[k] = copy.deepcopy(v)
            except Exception:
                pass
        snap[m.__name__] = d
    def plain(x):
        if isinstance(x, (str, int, float, bool, bytes, type(None))):
            return True
        if isinstance(x, dict):
            return all(plain(k) and plain(v) for k, v in x.items())
        if isinstance(x, (list, tuple, set, frozenset)):
            return all(plain(e) for e in x)
        return False
    hidden = []
    for label, obj in _hidden_state_holders():
        if "._member_" in label or "._value2member_map_" in label or "._unhashable_values_" in label or not plain(obj):
            continue          # enum internals / registries of live objects are not data
        hidden.append((label, obj, copy.deepcopy(obj)))
    _HIDDEN = hidden
    _SNAP = snap


def _restore_hidden():
    import copy
    for label, obj, pristine in _HIDDEN or ():
        if obj == pristine:
            continue
        fresh = copy.deepcopy(pristine)
        if isinstance(obj, dict):
            obj.clear()
            obj.update(fresh)
        elif isinstance(obj, list):
            obj[:] = fresh
        else:
            obj.clear()
            obj.update(fresh)


def local_init():
    global _LOCAL_READY
    if _LOCAL_READY:
        return
    snapshot_globals()
    scratch = tempfile.mkdtemp(prefix="l_", dir=base_dir())
    _child_setup(scratch, None, None, True)
    _LOCAL_READY = True


def reset_globals():
    """put the data globals of the stateful modules back to the pristine snapshot (new data
    names created since are removed), which is what a fresh process would see"""
    import copy
    import gasol_asm
    for m in _stateful_modules():
        d = _SNAP[m.__name__]
        cur = vars(m)
        for k in [k for k, v in cur.items() if not k.startswith("__") and isinstance(v, _DATA_TYPES) and k not in d]:
            del cur[k]
        for k, v in d.items():
            if k in ("tmp_path",):
                continue
            cur[k] = copy.deepcopy(v)
    _restore_hidden()
    gasol_asm.init()


def local(fn, *args, timeout=20, reset=True):
    """run fn(*args) in this process with the tool's mutable module state reset first
    (reset=False keeps whatever earlier calls left behind: used by the history checks)"""
    local_init()
    from . import runner
    runner.beat()
    if reset:
        reset_globals()
    old = signal.signal(signal.SIGALRM, _on_alarm)
    signal.setitimer(signal.ITIMER_REAL, timeout, 1.0)
    t0 = time.process_time()
    try:
        try:
            _ARMED[0] = True
            val = fn(*args)
            _ARMED[0] = False
            signal.setitimer(signal.ITIMER_REAL, 0)
            return Result("ok", val, None, time.process_time() - t0)
        except CaseTimeout as e:
            _ARMED[0] = False
            tb = traceback.extract_tb(e.__traceback__)
            return Result("timeout", None, ("in-process soft timeout %ss" % timeout, [(f.filename, f.lineno, f.name) for f in tb][-60:]),
                          time.process_time() - t0)
        except SystemExit as e:
            return Result("ok", None, "exit %r" % (e.code,), time.process_time() - t0)
        except BaseException as e:  # noqa
            _ARMED[0] = False
            signal.setitimer(signal.ITIMER_REAL, 0)
            tb = traceback.extract_tb(e.__traceback__)
            return Result("exc", None, (type(e).__name__, str(e)[:500], [(f.filename, f.lineno, f.name) for f in tb][-12:]),
                          time.process_time() - t0)
    finally:
        _ARMED[0] = False
        signal.setitimer(signal.ITIMER_REAL, 0)
        signal.signal(signal.SIGALRM, old)


# ------------------------------------------------------------------ GASOL entry points (run in child)
def make_params(argv):
    from argparse import ArgumentParser
    import gasol_asm
    from global_params.options import OptimizationParams
    ap = ArgumentParser()
    gasol_asm.options_gasol(ap)
    ns = ap.parse_args(argv)
    p = OptimizationParams()
    p.parse_args(ns)
    return p


def prepare_globals(params):
    """what execute_gasol does before dispatching"""
    import gasol_asm
    import global_params.constants as constants
    gasol_asm.init()
    if params.split_storage:
        constants.append_store_instructions_to_split()
    constants._set_push0(params.push0)


def gasol_main(argv, inputs, want, capture=True):
    """the real CLI entry (main_gasol) inside the child.  inputs: {relative name: text};
    want: names of files to read back.  returns dict(exit, stdout, files)."""
    import gasol_asm
    for name in want:
        if os.path.exists(name):
            os.remove(name)
    for name, text in inputs.items():
        with open(name, "w") as f:
            f.write(text)
    buf = io.StringIO()
    old = sys.stdout
    code = 0
    exc = None
    sys.argv = ["gasol_asm.py"] + list(argv)
    try:
        if capture:
            sys.stdout = buf
        try:
            gasol_asm.main_gasol()
        except SystemExit as e:
            code = e.code if isinstance(e.code, int) else (0 if e.code is None else 1)
        except CaseTimeout:
            raise                      # budget hits are reported by the caller with the stack they interrupted
        except BaseException as e:  # noqa
            code = 1
            tb = traceback.extract_tb(e.__traceback__)
            exc = (type(e).__name__, str(e)[:500], [(f.filename, f.lineno, f.name) for f in tb][-12:])
    finally:
        sys.stdout = old
    files = {}
    for name in want:
        if os.path.exists(name):
            with open(name) as f:
                files[name] = f.read()
    return {"exit": code, "exc": exc, "stdout": buf.getvalue() if capture else "", "files": files}


def build_blocks(items, cname="c", prefix="c_block", is_init=False):
    from sfs_generator.parser_asm import build_blocks_from_asm_representation
    return build_blocks_from_asm_representation(cname, prefix, items, is_init)


def specs_multi(jobs):
    """jobs: list of (items, argv); all argv must agree on the split policy and push0 (the only
    options that mutate module state).  returns list of spec_of_items results / ('error', ..)"""
    out = []
    for items, argv in jobs:
        try:
            out.append(spec_of_items(items, argv))
        except BaseException as e:  # noqa
            out.append([{"name": "?", "items": items, "error": (type(e).__name__, str(e)[:300], []), "src": 0}])
    return out


def spec_of_items(items, argv):
    """specification(s) for the basic blocks in an item list.  returns list of
    (block_name, items_of_block, syrup_contract dict, sub_block_list) or error entries."""
    import copy
    import gasol_asm
    params = make_params(["in.json"] + list(argv))
    prepare_globals(params)
    out = []
    for b in build_blocks(items):
        bitems = [i.to_json() for i in b.instructions]
        if b.instructions_to_optimize_plain() == []:
            out.append({"name": b.block_name, "items": bitems, "spec": {}, "subs": [], "src": b.source_stack})
            continue
        try:
            d, subs = gasol_asm.compute_original_sfs_with_simplifications(b, params)
            out.append({"name": b.block_name, "items": bitems, "spec": copy.deepcopy(d["syrup_contract"]),
                        "subs": subs, "src": b.source_stack})
        except Exception as e:  # noqa
            tb = traceback.extract_tb(e.__traceback__)
            cause = e.__context__ or e
            ctb = traceback.extract_tb(cause.__traceback__)
            out.append({"name": b.block_name, "items": bitems, "error": (type(cause).__name__, str(cause)[:300],
                        [(f.filename, f.lineno, f.name) for f in ctb][-6:]), "src": b.source_stack})
    return out
