"""E3 -- evaluator of one SFS/SMS specification (plain JSON, no GASOL objects) on a concrete
state under a chosen linearization of its memory/storage operations."""
import random
from . import evm

EFFECT = {"MLOAD", "MSTORE", "MSTORE8", "SLOAD", "SSTORE", "KECCAK256", "SHA3"}
STORES = {"MSTORE", "MSTORE8", "SSTORE"}


class SpecFault(Exception):
    """structural fault of a specification (dangling variable, two producers, cycle, ...)"""


class Spec:
    def __init__(self, S, liborder=None):
        self.S = S
        self.src = list(S["src_ws"])
        self.tgt = list(S["tgt_ws"])
        self.instrs = list(S["user_instrs"])
        self.by_id = {}
        self.producer = {}
        for u in self.instrs:
            if u["id"] in self.by_id:
                raise SpecFault("duplicate instruction id %s" % u["id"])
            self.by_id[u["id"]] = u
            for o in u.get("outpt_sk", []):
                if o in self.producer:
                    raise SpecFault("variable %s has two producers" % o)
                if o in self.src:
                    raise SpecFault("variable %s is both source word and output" % o)
                self.producer[o] = u["id"]
        self.liborder = liborder or []
        self.effects = [u["id"] for u in self.instrs if u["disasm"] in EFFECT]
        self.deps = [tuple(d) for d in S.get("dependencies", [])]
        for k in ("storage_dependences", "memory_dependences"):
            for d in S.get(k, []):
                if tuple(d) not in self.deps:
                    self.deps.append(tuple(d))
        for a, b in self.deps:
            if a not in self.by_id or b not in self.by_id:
                raise SpecFault("dependency names unknown instruction: %s" % ((a, b),))
        self._order = None

    # -------------------------------------------------- data-flow closure
    def _effect_preds_of_var(self, v, memo):
        """set of effect-node ids whose result v (transitively) needs"""
        if not isinstance(v, str):
            return frozenset()
        if v in memo:
            r = memo[v]
            if r is None:
                raise SpecFault("cyclic definition through %s" % v)
            return r
        pid = self.producer.get(v)
        if pid is None:
            if v not in self.src:
                raise SpecFault("variable %s is used but neither produced nor on the source stack" % v)
            memo[v] = frozenset()
            return memo[v]
        memo[v] = None
        u = self.by_id[pid]
        acc = set()
        for i in u["inpt_sk"]:
            acc |= self._effect_preds_of_var(i, memo)
        if u["disasm"] in EFFECT:
            acc = {pid} | acc
        memo[v] = frozenset(acc)
        return memo[v]

    def effect_order(self):
        """strict partial order (as predecessor sets, transitively closed) over effect nodes"""
        if self._order is not None:
            return self._order
        memo = {}
        pred = {e: set() for e in self.effects}
        for e in self.effects:
            for i in self.by_id[e]["inpt_sk"]:
                pred[e] |= self._effect_preds_of_var(i, memo)
            pred[e].discard(e)
        # dependencies between arbitrary nodes: lift to effect nodes.  A pair (a,b) with a or b
        # a non-effect node is kept only when both are effect nodes (others constrain nothing
        # observable).
        for a, b in self.deps:
            if a in pred and b in pred and a != b:
                pred[b].add(a)
        # close transitively + detect cycles
        closed = {}

        def close(n, stack):
            if n in closed:
                return closed[n]
            if n in stack:
                raise SpecFault("cycle in ordering constraints through %s" % n)
            stack.add(n)
            acc = set(pred[n])
            for p in list(pred[n]):
                acc |= close(p, stack)
            stack.discard(n)
            closed[n] = acc
            return acc
        for e in self.effects:
            close(e, set())
        self._order = closed
        return closed

    def count_linearizations(self, cap):
        order = self.effect_order()
        nodes = tuple(self.effects)
        memo = {}

        def cnt(done):
            if len(done) == len(nodes):
                return 1
            if done in memo:
                return memo[done]
            t = 0
            for n in nodes:
                if n not in done and order[n] <= done:
                    t += cnt(done | {n})
                    if t > cap:
                        break
            memo[done] = t
            return t
        return cnt(frozenset())

    def all_linearizations(self):
        order = self.effect_order()
        nodes = list(self.effects)
        out = []

        def rec(done, seq):
            if len(seq) == len(nodes):
                out.append(list(seq))
                return
            for n in nodes:
                if n not in done and order[n] <= done:
                    done.add(n); seq.append(n)
                    rec(done, seq)
                    done.discard(n); seq.pop()
        rec(set(), [])
        return out

    def priority_linearization(self, prio):
        """topological order choosing at each step the ready node with the smallest prio"""
        order = self.effect_order()
        nodes = list(self.effects)
        done, seq = set(), []
        while len(seq) < len(nodes):
            ready = [n for n in nodes if n not in done and order[n] <= done]
            n = min(ready, key=lambda x: (prio.get(x, 0), nodes.index(x)))
            done.add(n); seq.append(n)
        return seq

    def linearizations(self, cap=720, samples=24, rng=None):
        """(list of linearizations, exhaustive?)"""
        if len(self.effects) <= 1:
            return [list(self.effects)], True
        if self.count_linearizations(cap) <= cap:
            return self.all_linearizations(), True
        rng = rng or random.Random(0)
        nodes = list(self.effects)
        seen, out = set(), []

        def add(L):
            t = tuple(L)
            if t not in seen:
                seen.add(t); out.append(L)
        add(self.priority_linearization({n: i for i, n in enumerate(nodes)}))
        add(self.priority_linearization({n: -i for i, n in enumerate(nodes)}))
        st = {n: (0 if self.by_id[n]["disasm"] in STORES else 1) for n in nodes}
        add(self.priority_linearization(st))
        add(self.priority_linearization({n: -v for n, v in st.items()}))
        order = self.effect_order()
        pairs = [(a, b) for i, a in enumerate(nodes) for b in nodes[i + 1:]
                 if a not in order[b] and b not in order[a]
                 and (self.by_id[a]["disasm"] in STORES or self.by_id[b]["disasm"] in STORES)]
        rng.shuffle(pairs)
        for a, b in pairs[:samples]:
            add(self.priority_linearization({a: -2, b: 2}))
            add(self.priority_linearization({a: 2, b: -2}))
        for _ in range(samples):
            add(self.priority_linearization({n: rng.random() for n in nodes}))
        return out, False

    def unordered_conflict_pairs(self):
        order = self.effect_order()
        nodes = list(self.effects)
        return [(a, b) for i, a in enumerate(nodes) for b in nodes[i + 1:]
                if a not in order[b] and b not in order[a]]

    # -------------------------------------------------- evaluation
    def push_value(self, u):
        d = u["disasm"]
        if d in ("PUSH", "PUSH0"):
            v = u["value"][0] if d == "PUSH" else 0
            if not isinstance(v, int) or isinstance(v, bool):
                raise SpecFault("PUSH value is not an integer: %r" % (v,))
            if not (0 <= v < evm.M256):
                raise SpecFault("PUSH value outside [0,2^256): %r" % (v,))
            return v
        if d in evm.PSEUDO_PUSH:
            if d in ("PUSHSIZE", "PUSHDEPLOYADDRESS"):
                return evm.pseudo_value(d, None)
            raw = u["value"][0]
            if d == "PUSHLIB":
                key = raw
                for idx, real in enumerate(self.liborder):
                    try:
                        if int(str(idx), 16) == int(raw):
                            key = evm.pseudo_key(d, real)
                    except (ValueError, TypeError):
                        pass
                return evm.pseudo_value(d, key)
            try:
                key = int(raw)
            except (ValueError, TypeError):
                key = "raw:" + str(raw)
            return evm.pseudo_value(d, key)
        raise SpecFault("push-flagged instruction with unknown disasm %s" % d)

    def evaluate(self, L, state):
        """returns (final_stack (top first), Machine).  L orders the effect nodes."""
        m = evm.Machine(evm.State([], state.key, state.env))
        n_src = len(self.src)
        if len(state.stack) < n_src:
            raise evm.StackUnderflow()
        val = {}
        for i, v in enumerate(self.src):
            if v in val and val[v] != state.stack[i]:
                raise SpecFault("source stack repeats %s" % v)
            val[v] = state.stack[i]
        done = set()
        pending_effects = set(self.effects)

        def get(x):
            if not isinstance(x, str):
                if isinstance(x, bool) or not isinstance(x, int):
                    raise SpecFault("operand %r is neither variable nor integer" % (x,))
                if not (0 <= x < evm.M256):
                    raise SpecFault("integer operand outside [0,2^256): %r" % (x,))
                return x
            if x in val:
                return val[x]
            pid = self.producer.get(x)
            if pid is None:
                raise SpecFault("variable %s undefined" % x)
            u = self.by_id[pid]
            if u["disasm"] in EFFECT:
                raise SpecFault("schedule uses %s before %s is executed" % (x, pid))
            run_node(u)
            return val[x]

        def run_node(u):
            if u["id"] in done:
                return
            d = u["disasm"]
            ins = [get(i) for i in u["inpt_sk"]]
            done.add(u["id"])
            outs = u.get("outpt_sk", [])
            if u.get("push") or d in evm.PSEUDO_PUSH or d in ("PUSH", "PUSH0"):
                res = self.push_value(u)
            elif d in evm.PURE:
                n, f = evm.PURE[d]
                if len(ins) != n:
                    raise SpecFault("%s with %d operands" % (d, len(ins)))
                res = f(*ins)
            elif d in evm.ENV0:
                res = m.envval(d)
            elif d == "SELFBALANCE":
                res = evm.H("BALANCE", m.acct_epoch, m.envval("ADDRESS"))
            elif d == "BALANCE":
                res = evm.H("BALANCE", m.acct_epoch, ins[0] & evm.M160)
            elif d == "EXTCODESIZE":
                res = evm.H("EXTCODESIZE", m.acct_epoch, ins[0] & evm.M160) & 0xFFFF
            elif d == "EXTCODEHASH":
                res = evm.H("EXTCODEHASH", m.acct_epoch, ins[0] & evm.M160)
            elif d == "BLOCKHASH":
                res = evm.H("BLOCKHASH", m.key, ins[0])
            elif d == "CALLDATALOAD":
                res = evm.H("CALLDATALOAD", m.key, ins[0])
            elif d == "RETURNDATASIZE":
                res = m.rds
            elif d == "MLOAD":
                res = int.from_bytes(m.mread(ins[0], 32), "big")
            elif d == "SLOAD":
                res = m.sload(ins[0])
            elif d in ("KECCAK256", "SHA3"):
                import hashlib
                res = int.from_bytes(hashlib.sha3_256(m.mread(ins[0], ins[1])).digest(), "big")
            elif d == "MSTORE":
                m.mwrite(ins[0], ins[1].to_bytes(32, "big")); res = None
            elif d == "MSTORE8":
                m.mwrite(ins[0], bytes([ins[1] & 0xFF])); res = None
            elif d == "SSTORE":
                m.sto[ins[0]] = ins[1]; res = None
            elif d == "POP":
                res = None
            else:
                raise SpecFault("cannot evaluate instruction %s (%s)" % (u["id"], d))
            if res is None:
                if outs:
                    raise SpecFault("%s produces no value but names outputs" % u["id"])
            else:
                if len(outs) != 1:
                    raise SpecFault("%s must name exactly one output" % u["id"])
                val[outs[0]] = res

        for e in L:
            run_node(self.by_id[e])
            pending_effects.discard(e)
        if pending_effects:
            raise SpecFault("linearization misses %s" % sorted(pending_effects))
        final = [get(t) for t in self.tgt] + list(state.stack[n_src:])
        return final, m


def compare_with_block(spec, L, instrs, state):
    """None if eval(spec, L, state) == exec(instrs, state); else reason string.
    raises evm.OutOfDomain when the *block* leaves the domain."""
    ref = evm.run(instrs, state)            # may raise OutOfDomain / StackUnderflow
    out, mb = ref
    try:
        fs, ms = spec.evaluate(L, state)
    except evm.OutOfDomain:
        return "specification touches memory outside the domain the block stays in"
    if out.status != "fall":
        raise SpecFault("segment ends with a terminal")
    if fs != out.stack:
        if len(fs) != len(out.stack):
            return "stack height: spec %d vs block %d" % (len(fs), len(out.stack))
        for i, (x, y) in enumerate(zip(fs, out.stack)):
            if x != y:
                return "final stack[%d]: spec %#x vs block %#x" % (i, x, y)
    for off in set(ms.mem) | set(out.mem):
        a = ms.mem.get(off)
        b = out.mem.get(off)
        if a is None:
            a = ms.bg_mem(off)
        if b is None:
            b = mb.bg_mem(off)
        if a != b:
            return "memory byte %#x: spec %#x vs block %#x" % (off, a, b)
    for k in set(ms.sto) | set(out.sto):
        a, b = ms.sload(k), mb.sload(k)
        if a != b:
            return "storage slot %#x: spec %#x vs block %#x" % (k, a, b)
    return None
