"""Self-test of the trusted base: E1 opcode functions vs z3 bit-vector semantics (run under python3-vt)
plus known-answer vectors from the EVM specification."""
import os
import random
import sys

sys.path.insert(0, os.path.dirname(os.path.dirname(os.path.abspath(__file__))))
from vf import evm  # noqa
import z3  # noqa

W = 256
GRID = [0, 1, 2, 3, 31, 32, 33, 255, 256, 257, (1 << 160) - 1, 1 << 160, (1 << 255) - 1, 1 << 255, (1 << 255) + 1, evm.M256 - 2, evm.M256 - 1]


def bv(x):
    return z3.BitVecVal(x, W)


def val(e):
    return z3.simplify(e).as_long()


def one(cond):
    return val(z3.If(cond, bv(1), bv(0)))


REF = {
    "ADD": lambda a, b: val(bv(a) + bv(b)),
    "MUL": lambda a, b: val(bv(a) * bv(b)),
    "SUB": lambda a, b: val(bv(a) - bv(b)),
    "DIV": lambda a, b: 0 if b == 0 else val(z3.UDiv(bv(a), bv(b))),
    "SDIV": lambda a, b: 0 if b == 0 else val(bv(a) / bv(b)),
    "MOD": lambda a, b: 0 if b == 0 else val(z3.URem(bv(a), bv(b))),
    "SMOD": lambda a, b: 0 if b == 0 else val(z3.SRem(bv(a), bv(b))),
    "LT": lambda a, b: one(z3.ULT(bv(a), bv(b))),
    "GT": lambda a, b: one(z3.UGT(bv(a), bv(b))),
    "SLT": lambda a, b: one(bv(a) < bv(b)),
    "SGT": lambda a, b: one(bv(a) > bv(b)),
    "EQ": lambda a, b: one(bv(a) == bv(b)),
    "AND": lambda a, b: val(bv(a) & bv(b)),
    "OR": lambda a, b: val(bv(a) | bv(b)),
    "XOR": lambda a, b: val(bv(a) ^ bv(b)),
    "SHL": lambda s, v: 0 if s >= 256 else val(bv(v) << bv(s)),
    "SHR": lambda s, v: 0 if s >= 256 else val(z3.LShR(bv(v), bv(s))),
    "SAR": lambda s, v: val(bv(v) >> bv(min(s, 255))),
    "BYTE": lambda i, x: 0 if i >= 32 else val(z3.ZeroExt(W - 8, z3.Extract(255 - 8 * i, 248 - 8 * i, bv(x)))),
    "SIGNEXTEND": lambda k, x: x if k >= 31 else val(z3.SignExt(W - 8 * (k + 1), z3.Extract(8 * k + 7, 0, bv(x)))),
}
KAT = [
    ("SDIV", (1 << 255, evm.M256 - 1), 1 << 255), ("SDIV", (evm.M256 - 4, 2), evm.M256 - 2), ("SMOD", (evm.M256 - 8, evm.M256 - 3), evm.M256 - 2),
    ("SMOD", (evm.M256 - 8, 3), evm.M256 - 2), ("SMOD", (8, evm.M256 - 3), 2), ("SIGNEXTEND", (0, 0xFF), evm.M256 - 1), ("SIGNEXTEND", (0, 0x7F), 0x7F),
    ("SIGNEXTEND", (1, 0x80FF), (evm.M256 - 1) ^ 0x7F00), ("SIGNEXTEND", (31, 123), 123), ("SIGNEXTEND", (evm.M256 - 1, 0xFF), 0xFF), ("BYTE", (31, 0xABCD), 0xCD),
    ("BYTE", (30, 0xABCD), 0xAB), ("BYTE", (32, 0xABCD), 0), ("BYTE", (0, 0xFF << 248), 0xFF), ("SAR", (256, 1 << 255), evm.M256 - 1), ("SAR", (1, evm.M256 - 1), evm.M256 - 1),
    ("SAR", (255, 1 << 255), evm.M256 - 1), ("SAR", (4, 0x10), 1), ("SHL", (255, 1), 1 << 255), ("SHL", (256, 1), 0), ("SHR", (255, 1 << 255), 1), ("EXP", (2, 256), 0),
    ("EXP", (0, 0), 1), ("EXP", (3, 5), 243), ("EXP", (2, 255), 1 << 255), ("ADDMOD", (evm.M256 - 1, evm.M256 - 1, 7), ((evm.M256 - 1) * 2) % 7),
    ("ADDMOD", (5, 6, 0), 0), ("MULMOD", (evm.M256 - 1, evm.M256 - 1, 12), ((evm.M256 - 1) ** 2) % 12), ("MULMOD", (5, 6, 0), 0), ("DIV", (5, 0), 0), ("MOD", (5, 0), 0),
    ("ISZERO", (0,), 1), ("ISZERO", (5,), 0), ("NOT", (0,), evm.M256 - 1), ("SUB", (0, 1), evm.M256 - 1),
]


def main():
    n = int(sys.argv[1]) if len(sys.argv) > 1 else 1500
    rng = random.Random(1)
    bad = 0
    total = 0
    for name, ref in REF.items():
        f = evm.PURE[name][1]
        pairs = [(a, b) for a in GRID for b in GRID]
        for _ in range(n):
            bits = rng.choice([8, 9, 64, 160, 255, 256])
            pairs.append((rng.getrandbits(bits), rng.getrandbits(rng.choice([3, 8, 9, 256]))))
        for a, b in pairs:
            total += 1
            if f(a, b) != ref(a, b):
                bad += 1
                if bad < 10:
                    print("MISMATCH %s(%#x, %#x): E1 %#x z3 %#x" % (name, a, b, f(a, b), ref(a, b)))
    for name, args, want in KAT:
        total += 1
        got = evm.PURE[name][1](*args)
        if got != want:
            bad += 1
            print("KAT MISMATCH %s%s: %#x expected %#x" % (name, args, got, want))
    print("E1 self-test: %d comparisons against z3 bit-vectors / known answers, %d mismatches" % (total, bad))
    sys.exit(1 if bad else 0)


if __name__ == "__main__":
    main()
