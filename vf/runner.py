"""E8 -- runner: tiers, seeds, shards, buckets, known findings, replay files, evidence."""
import os
import sys
import json
import time
import hashlib
import traceback
import multiprocessing
import collections

HERE = os.path.dirname(os.path.dirname(os.path.abspath(__file__)))
NPROC = int(os.environ.get("VERIF_PROCS", str(min(16, os.cpu_count() or 4))))


def jhash(obj):
    return hashlib.sha1(json.dumps(obj, sort_keys=True, default=str).encode()).hexdigest()[:16]


class Failure:
    """one observed violation (before bucketing)"""

    def __init__(self, kind, culprit, what, case):
        self.kind = kind            # failure kind, e.g. "value-mismatch"
        self.culprit = culprit      # root-cause key, e.g. rule name
        self.what = what            # one-line human description
        self.case = case            # JSON-able replay payload

    @property
    def bucket(self):
        return "%s|%s" % (self.kind, self.culprit)

    def to_json(self):
        return {"kind": self.kind, "culprit": self.culprit, "what": self.what, "case": self.case}

    @staticmethod
    def from_json(d):
        return Failure(d["kind"], d["culprit"], d["what"], d["case"])


class Stats:
    """mergeable statistics of one shard"""

    def __init__(self):
        self._evaluations = 0
        self.nontrivial = set()
        self.classes = collections.Counter()
        self.samples = []
        self.failures = []
        self.notes = collections.Counter()
        self.inconclusive = 0

    @property
    def evaluations(self):
        return self._evaluations

    @evaluations.setter
    def evaluations(self, v):
        # every counted evaluation is progress: tells the stall watchdog of run_shards that this shard is alive
        self._evaluations = v
        beat()

    def sample(self, s, cap=6):
        if len(self.samples) < cap:
            self.samples.append(s)

    def fail(self, f, cap_per_bucket=4):
        n = sum(1 for x in self.failures if x.bucket == f.bucket)
        self.classes["FAIL " + f.bucket] += 1
        if n < cap_per_bucket:
            self.failures.append(f)

    def merge(self, o):
        self.evaluations += o.evaluations
        self.nontrivial |= o.nontrivial
        self.classes.update(o.classes)
        self.notes.update(o.notes)
        self.inconclusive += o.inconclusive
        for s in o.samples:
            self.sample(s, cap=8)
        for f in o.failures:
            self.fail(f, cap_per_bucket=6)

    def pack(self):
        return {"evaluations": self.evaluations, "nontrivial": sorted(self.nontrivial),
                "classes": dict(self.classes), "samples": self.samples, "notes": dict(self.notes),
                "failures": [f.to_json() for f in self.failures], "inconclusive": self.inconclusive}

    @staticmethod
    def unpack(d):
        s = Stats()
        s.evaluations = d["evaluations"]
        s.nontrivial = set(d["nontrivial"])
        s.classes = collections.Counter(d["classes"])
        s.samples = d["samples"]
        s.notes = collections.Counter(d["notes"])
        s.failures = [Failure.from_json(f) for f in d["failures"]]
        s.inconclusive = d.get("inconclusive", 0)
        return s


_JOURNAL = None


def journal(obj):
    """remember the case this shard is about to run, so that a shard that hangs or dies can be
    attributed to a case (re-run afterwards in a fresh child under hard limits)"""
    if _JOURNAL:
        try:
            with open(_JOURNAL, "w") as f:
                json.dump(obj, f, default=str)
        except OSError:
            pass


_LAST_BEAT = [0.0]


def beat():
    """progress heartbeat of a shard (rate limited): refreshes the modification time of its journal file"""
    if _JOURNAL:
        now = time.monotonic()
        if now - _LAST_BEAT[0] > 2.0:
            _LAST_BEAT[0] = now
            try:
                if os.path.exists(_JOURNAL):
                    os.utime(_JOURNAL, None)
                else:
                    open(_JOURNAL, "a").close()
            except OSError:
                pass


def _shard_entry(fn, arg, conn, jpath=None):
    global _JOURNAL
    _JOURNAL = jpath
    try:
        from . import hermetic
        hermetic.forget_base()       # never share (or delete) the parent's scratch directory
        res = fn(*arg)
        conn.send(("ok", res.pack() if isinstance(res, Stats) else res))
    except BaseException as e:  # noqa
        conn.send(("err", "%s: %s\n%s" % (type(e).__name__, e, traceback.format_exc())))
    finally:
        try:
            from . import hermetic
            hermetic.cleanup()
        except Exception:
            pass
        conn.close()


class HarnessError(Exception):
    pass


def run_shards(fn, args_list, procs=None, stall_s=1200, on_suspect=None):
    """run fn(*args) for each args in separate forked processes (at most procs at once);
    returns list of results in order.  A shard that crashes is a harness error, unless it left
    a journal entry and ``on_suspect`` is given: then the journalled case is handed to
    on_suspect(case, why) (main process) and the shard's result is whatever that returns."""
    import tempfile
    procs = procs or NPROC
    ctx = multiprocessing.get_context("fork")
    pending = list(enumerate(args_list))
    running = {}
    results = [None] * len(args_list)
    jdir = tempfile.mkdtemp(prefix="gvf_journal_")

    def suspect(i, why):
        jp = os.path.join(jdir, "j%d.json" % i)
        case = None
        if os.path.exists(jp):
            try:
                case = json.load(open(jp))
            except ValueError:
                case = None
        if on_suspect is None or case is None:
            for q, _, _ in running.values():
                if q.is_alive():
                    q.terminate()
            raise HarnessError("shard %d: %s" % (i, why))
        return on_suspect(case, why)
    try:
        while pending or running:
            while pending and len(running) < procs:
                i, a = pending.pop(0)
                pc, cc = ctx.Pipe(duplex=False)
                jp = os.path.join(jdir, "j%d.json" % i)
                p = ctx.Process(target=_shard_entry, args=(fn, a, cc, jp))
                p.start()
                cc.close()
                running[i] = (p, pc, time.time())
            done = []
            for i, (p, pc, started) in list(running.items()):
                if pc.poll(0.05):
                    try:
                        kind, val = pc.recv()
                    except EOFError:
                        kind, val = "err", "shard %d died without result (exit %s)" % (i, p.exitcode)
                    p.join()
                    if kind != "ok":
                        results[i] = suspect(i, val)
                    else:
                        results[i] = val
                    done.append(i)
                elif not p.is_alive() and not pc.poll(0.2):
                    p.join()
                    results[i] = suspect(i, "died without result (exit %s)" % p.exitcode)
                    done.append(i)
                elif stall_s:
                    jp = os.path.join(jdir, "j%d.json" % i)
                    last = os.path.getmtime(jp) if os.path.exists(jp) else started
                    if time.time() - max(last, started) > stall_s:
                        p.kill()
                        p.join()
                        results[i] = suspect(i, "no progress for %ds (killed)" % stall_s)
                        done.append(i)
            for i in done:
                del running[i]
    finally:
        import shutil
        shutil.rmtree(jdir, ignore_errors=True)
    return results


def merge_stats(packed):
    tot = Stats()
    for d in packed:
        if d is None:
            continue
        tot.merge(d if isinstance(d, Stats) else Stats.unpack(d))
    return tot


# ---------------------------------------------------------------- known findings
def load_known(prop):
    path = os.path.join(HERE, "known_findings.jsonl")
    known, fixed = [], []
    if os.path.exists(path):
        for line in open(path):
            line = line.strip()
            if not line or line.startswith("#"):
                continue
            d = json.loads(line)
            if d.get("property") != prop:
                continue
            (known if d.get("status") == "known" else fixed).append(d)
    return known, fixed


def replay_files(prop):
    d = os.path.join(HERE, "replays", prop)
    if not os.path.isdir(d):
        return []
    return [os.path.join(d, f) for f in sorted(os.listdir(d)) if f.endswith(".json")]


def write_violation(prop, failure, extra=None):
    d = os.path.join(HERE, "out", "violations", prop)
    os.makedirs(d, exist_ok=True)
    payload = {"property": prop, "bucket": failure.bucket, "kind": failure.kind, "culprit": failure.culprit,
               "what": failure.what, "case": failure.case}
    if extra:
        payload.update(extra)
    path = os.path.join(d, jhash([failure.bucket, failure.case]) + ".json")
    with open(path, "w") as f:
        json.dump(payload, f, indent=1, default=str)
    return path


def write_evidence(prop, tier, seed, level, coverage, assumptions, wall, violations):
    d = os.path.join(HERE, "evidence")
    if os.environ.get("GASOL_REPO") and os.path.realpath(os.environ["GASOL_REPO"]) != "/repo":
        # sensitivity runs against a scratch copy of the repository must not overwrite the evidence of the real tree
        d = os.path.join(HERE, "out", "evidence_scratch")
    os.makedirs(d, exist_ok=True)
    ev = {"property_id": prop, "tier": tier, "seed": seed, "level": level, "coverage": coverage,
          "assumptions": assumptions, "wall_s": round(wall, 2), "violations": violations}
    with open(os.path.join(d, prop + ".json"), "w") as f:
        json.dump(ev, f, indent=1, default=str)
    return ev


def conclude(prop, tier, seed, stats, rule, assumptions, t0, level="exploration", exhaustive=None,
             extra_cov=None, shrink=None):
    """bucket failures, match known findings, print verdict lines, write evidence; returns exit code"""
    known, fixed = load_known(prop)
    known_by_bucket = {k["bucket"]: k for k in known}
    buckets = collections.OrderedDict()
    for f in stats.failures:
        buckets.setdefault(f.bucket, []).append(f)
    new_viol = 0
    known_hits = []
    todo = []
    for b, fs in buckets.items():
        if b in known_by_bucket:
            known_hits.append(b)
        else:
            todo.append(fs[0])
    t_shrink = time.time()
    if shrink is not None and todo:
        lim = int(os.environ.get("VERIF_SHRINK_MAX", "32"))
        head, tail = todo[:lim], todo[lim:]
        try:
            packed = run_shards(_shrink_entry, [(shrink, f.to_json()) for f in head])
            shrunk = [Failure.from_json(d) for d in packed]
            # a reduction that drifted into the bucket of a listed finding would hide a new violation behind it:
            # such a failure is reported as it was found
            head = [g if (g.bucket == f.bucket or g.bucket not in known_by_bucket) else f for f, g in zip(head, shrunk)]
        except HarnessError as e:
            print("note: shrinking failed (%s); reporting unshrunk cases" % str(e)[:200], file=sys.stderr)
        todo = head + tail
    reported = set()
    for rep in todo:
        if rep.bucket in known_by_bucket:
            # the minimal reproduction is an already listed finding
            known_hits.append(rep.bucket)
            continue
        if rep.bucket in reported:
            continue
        reported.add(rep.bucket)
        path = write_violation(prop, rep)
        print("VIOLATION property=%s replay=%s" % (prop, path))
        print("  bucket=%s :: %s" % (rep.bucket, rep.what))
        new_viol += 1
    for b in sorted(set(known_hits)):
        print("KNOWN-FINDING: property=%s %s" % (prop, known_by_bucket[b].get("what", b)))
    cov = {"evaluations": int(stats.evaluations), "distinct_nontrivial": len(stats.nontrivial),
           "rule": rule, "samples": stats.samples[:8],
           "classes": dict(sorted(stats.classes.items(), key=lambda kv: -kv[1])[:60]),
           "notes": dict(stats.notes), "inconclusive": stats.inconclusive,
           "failure_buckets": {b: len(fs) for b, fs in buckets.items()}, "shrink_s": round(time.time() - t_shrink, 1),
           "known_finding_hits": sorted(set(known_hits))}
    if exhaustive is not None:
        cov["exhaustive"] = bool(exhaustive)
    if extra_cov:
        cov.update(extra_cov)
    write_evidence(prop, tier, seed, level, cov, assumptions, time.time() - t0, new_viol)
    print("%s %s: %d evaluations, %d distinct non-trivial, %d failure bucket(s) (%d known), %.1fs" % (
        prop, tier, stats.evaluations, len(stats.nontrivial), len(buckets), len(set(known_hits)), time.time() - t0))
    return 1 if new_viol else 0


def _shrink_entry(shrink, fj):
    f = Failure.from_json(fj)
    try:
        g = shrink(f) or f
    except Exception:
        traceback.print_exc()
        g = f
    return g.to_json()


def shard_seed(seed, shard, salt=""):
    return int(hashlib.sha1(("%s/%s/%s" % (seed, shard, salt)).encode()).hexdigest()[:12], 16)


def chunks(lst, n):
    """n round-robin slices"""
    return [lst[i::n] for i in range(n)]
