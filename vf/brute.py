"""E5 -- brute-force enumeration of realizing sequences over {POP, DUPk, SWAPk, instruction ids}
with E4's transition function.  Conclusive only within its node budget; otherwise 'unknown'."""
from . import seqcheck


class Budget(Exception):
    pass


def _deps(S):
    deps = [tuple(d) for d in S.get("dependencies", [])]
    for k in ("storage_dependences", "memory_dependences"):
        for d in S.get(k, []):
            if tuple(d) not in deps:
                deps.append(tuple(d))
    return deps


def necessary_instrs(S):
    """ids that every realizing sequence must contain: stores and producers (transitively) of
    target words / store operands"""
    by_out = {}
    for u in S["user_instrs"]:
        for o in u.get("outpt_sk", []):
            by_out[o] = u
    need = {}
    work = [x for x in S["tgt_ws"] if isinstance(x, str)]
    for u in S["user_instrs"]:
        if u.get("storage"):
            need[u["id"]] = u
            work += [x for x in u["inpt_sk"] if isinstance(x, str)]
    src = set(S["src_ws"])
    while work:
        v = work.pop()
        if v in src:
            continue
        u = by_out.get(v)
        if u is None or u["id"] in need:
            continue
        need[u["id"]] = u
        work += [x for x in u["inpt_sk"] if isinstance(x, str)]
    return need


def length_lower_bound(S):
    return len(necessary_instrs(S))


def height_lower_bound(S):
    need = necessary_instrs(S)
    return max([len(S["src_ws"]), len(S["tgt_ws"])] + [len(u["inpt_sk"]) for u in need.values()])


class Search:
    def __init__(self, S, max_len, max_height, node_budget=400000, cost=None, ids_allowed=None):
        self.S = S
        self.by_id = {u["id"]: u for u in S["user_instrs"]}
        self.max_len = max_len
        self.max_height = max_height
        self.budget = node_budget
        self.nodes = 0
        self.tgt = tuple(S["tgt_ws"])
        self.stores = frozenset(u["id"] for u in S["user_instrs"] if u.get("storage"))
        self.necessary = frozenset(necessary_instrs(S))
        deps = _deps(S)
        self.before = {}
        for a, b in deps:
            self.before.setdefault(a, set()).add(b)      # a must not run once b ran
        self.cost = cost or (lambda ident: 1)
        self.cand_ids = [u["id"] for u in S["user_instrs"] if ids_allowed is None or u["id"] in ids_allowed]

    def moves(self, stack, done):
        h = len(stack)
        out = []
        if h:
            out.append("POP")
        for k in range(1, min(h, 16) + 1):
            if h + 1 <= self.max_height:
                out.append("DUP%d" % k)
        for k in range(1, min(h - 1, 16) + 1):
            out.append("SWAP%d" % k)
        for i in self.cand_ids:
            u = self.by_id[i]
            n = len(u["inpt_sk"])
            if h < n:
                continue
            top = list(stack[:n])
            if top != list(u["inpt_sk"]) and not (u.get("commutative") and n == 2 and top == list(u["inpt_sk"])[::-1]):
                continue
            if u.get("storage") and i in done:
                continue
            if any(b in done for b in self.before.get(i, ())):
                continue
            if h - n + len(u.get("outpt_sk", [])) > self.max_height:
                continue
            out.append(i)
        return out

    def min_cost(self):
        """(min total cost or None, witness sequence).  raises Budget"""
        memo = {}
        INF = float("inf")
        tgt = self.tgt

        def rec(stack, done, left):
            key = (stack, done, left)
            if key in memo:
                return memo[key]
            self.nodes += 1
            if self.nodes > self.budget:
                raise Budget()
            best = (INF, None)
            if stack == tgt and self.stores <= done and self.necessary <= done | frozenset():
                best = (0, ())
            if left > 0:
                missing = len(self.necessary - done)
                if missing <= left:
                    for mv in self.moves(stack, done):
                        ns, err, kind = seqcheck.step(list(stack), mv, self.by_id)
                        if err:
                            continue
                        nd = done | {mv} if kind == "instr" else done
                        c, seq = rec(tuple(ns), nd, left - 1)
                        if c < INF:
                            c2 = c + self.cost(mv)
                            if c2 < best[0]:
                                best = (c2, (mv,) + seq)
            memo[key] = best
            return best
        c, seq = rec(tuple(self.S["src_ws"]), frozenset(), self.max_len)
        if c == INF:
            return None, None
        return c, list(seq)


def exists_within(S, max_len, max_height, node_budget=300000):
    """('yes', seq) | ('no', None) | ('unknown', None)"""
    try:
        c, seq = Search(S, max_len, max_height, node_budget).min_cost()
    except Budget:
        return "unknown", None
    except RecursionError:
        return "unknown", None
    if c is None:
        return "no", None
    return "yes", seq


def original_to_ids(S, seg):
    """map the original instruction list of a segment to ids of S (None if not possible)"""
    by_id = {u["id"]: u for u in S["user_instrs"]}
    stack = list(S["src_ws"])
    used_loads = set()
    ids = []
    for name, arg in seg:
        if name == "POP" or name.startswith("DUP") or name.startswith("SWAP"):
            stack, err, _ = seqcheck.step(stack, name, by_id)
            if err:
                return None
            ids.append(name)
            continue
        cands = []
        for u in S["user_instrs"]:
            d = u["disasm"]
            if name == "PUSH":
                if not ((d == "PUSH" and u.get("value") and int(u["value"][0]) == arg) or (d == "PUSH0" and arg == 0)):
                    continue
            elif d != name and not (name == "SHA3" and d == "KECCAK256"):
                continue
            elif "value" in u and name != "PUSH" and arg is not None:
                try:
                    from . import evm
                    if evm.pseudo_key(name, arg) != int(u["value"][0]):
                        continue
                except (ValueError, TypeError):
                    continue
            n = len(u["inpt_sk"])
            top = stack[:n]
            if len(stack) < n or (top != list(u["inpt_sk"]) and not (u.get("commutative") and n == 2 and top == list(u["inpt_sk"])[::-1])):
                continue
            cands.append(u)
        fresh = [u for u in cands if u["id"] not in used_loads]
        if not cands:
            return None
        u = (fresh or cands)[0]
        if u["disasm"] in ("MLOAD", "SLOAD", "KECCAK256", "SHA3") or u.get("storage"):
            used_loads.add(u["id"])
        stack, err, _ = seqcheck.step(stack, u["id"], by_id)
        if err:
            return None
        ids.append(u["id"])
    return ids
