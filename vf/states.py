"""E2 (states) -- concrete machine states for a block with a given stack need.
All randomness comes from a ``random.Random`` seeded with a Hypothesis-drawn integer."""
import itertools
from . import evm

B = evm.M256
GRID = [0, 1, 2, 31, 32, 33, 255, 256, (1 << 160) - 1, 1 << 160, (1 << 255) - 1, 1 << 255,
        (1 << 255) + 1, B - 2, B - 1]
SMALL_GRID = [0, 1, 2, 32, 255, (1 << 160) - 1, 1 << 255, B - 1]
BASES = [0, 0x20, 0x40, 0x80, 0x100, 0x3E8]
SIZES = [0, 1, 2, 31, 32, 33, 64, 65]


def rand_word(rng):
    k = rng.random()
    if k < 0.35:
        return rng.choice(GRID)
    if k < 0.5:
        return rng.randrange(0, 300)
    bits = rng.choice([8, 16, 32, 64, 128, 160, 255, 256])
    v = rng.getrandbits(bits)
    if rng.random() < 0.2:
        v = (B - v) % B       # small negative numbers
    return v


def alias_word(rng, base):
    return max(0, base + rng.randint(-33, 33))


def env_overrides(rng):
    env = {}
    if rng.random() < 0.3:
        for name, bits in evm.ENV0.items():
            if rng.random() < 0.25:
                env[name] = rng.choice([0, 1, (1 << bits) - 1, rng.getrandbits(bits)])
    return env


def make_states(rng, need, addr_slots=(), size_slots=(), count=24, extra_max=3):
    """list of evm.State, stack[0] = top"""
    out = []
    addr_slots = set(addr_slots)
    size_slots = set(size_slots)
    for i in range(count):
        prof = rng.random()
        base = rng.choice(BASES)
        st = []
        for s in range(need):
            if prof < 0.30:                       # aliasing family everywhere
                w = alias_word(rng, base)
            elif prof < 0.36:                     # all equal
                w = base
            elif s in size_slots:
                w = rng.choice(SIZES)
            elif s in addr_slots:
                w = alias_word(rng, base) if rng.random() < 0.8 else rng.choice(SIZES + BASES)
            elif prof < 0.70:
                w = rng.choice(GRID)
            else:
                w = rand_word(rng)
            st.append(w)
        if prof >= 0.97:                          # wild: anything anywhere
            st = [rand_word(rng) for _ in range(need)]
        extra = rng.randint(0, extra_max) if (i % 2) else 0
        st += [rand_word(rng) for _ in range(extra)]
        out.append(evm.State(st, key=rng.getrandbits(48), env=env_overrides(rng)))
    return out


def grid_states(need, rng, addr_slots=(), grid=GRID, cap=400):
    """full cross product of the boundary grid over the free (non-address) slots when small"""
    free = [s for s in range(need) if s not in set(addr_slots)]
    if not free or len(grid) ** len(free) > cap:
        return []
    out = []
    for combo in itertools.product(grid, repeat=len(free)):
        st = [0] * need
        for s, w in zip(free, combo):
            st[s] = w
        for s in addr_slots:
            if s < need:
                st[s] = alias_word(rng, 0x80)
        out.append(evm.State(st, key=rng.getrandbits(48)))
    return out
