"""running whole documents through the real CLI entry (main_gasol) and reading everything it emits"""
import csv
import io
import json
import re
from . import pipeline, hermetic

OUT = "in_optimized.json_solc"
FILES = (OUT, "seq.csv", "blocks.csv", "out.log", "in_optimized.json")


def run(doc, argv, mode="combined", extra_inputs=None, timeout=120, infile="in.json_solc"):
    """mode: combined (default), single (-single-json).  returns pipeline Result whose value is a
    dict(exit, exc, stdout, files, doc_out, totals, block_rows, seq_rows, log)"""
    inputs = {infile: json.dumps(doc)}
    if extra_inputs:
        inputs.update(extra_inputs)
    full = [infile] + list(argv) + ["-csv", "seq.csv", "-block-csv", "blocks.csv", "-dest-log", "out.log"]
    if mode == "single":
        full.append("-single-json")
    r = pipeline.gasol(hermetic.gasol_main, full, inputs, list(FILES) + ["in_optimized_from_log.json_solc"], cpu=timeout)
    if r.kind != "ok":
        return r
    v = r.value
    v["doc_out"] = None
    for name in (OUT, "in_optimized.json", "in_optimized_from_log.json_solc"):
        if name in v["files"]:
            try:
                v["doc_out"] = json.loads(v["files"][name])
                v["out_name"] = name
            except ValueError:
                v["doc_out_error"] = "emitted %s is not JSON" % name
            break
    v["totals"] = parse_totals(v["stdout"])
    v["block_rows"] = read_csv(v["files"].get("blocks.csv"))
    v["seq_rows"] = read_csv(v["files"].get("seq.csv"))
    try:
        v["log"] = json.loads(v["files"]["out.log"]) if "out.log" in v["files"] else None
    except ValueError:
        v["log"] = None
    return r


TOTAL_PATTERNS = {
    "gas_before": r"Estimated initial gas: (-?\d+)", "gas_after": r"Estimated gas optimized: (-?\d+)",
    "size_before": r"Estimated initial size in bytes: (-?\d+)", "size_after": r"Estimated size optimized in bytes: (-?\d+)",
    "len_before": r"Initial number of instructions: (-?\d+)", "len_after": r"Final number of instructions: (-?\d+)",
}


def parse_totals(stdout):
    out = {}
    for k, pat in TOTAL_PATTERNS.items():
        m = re.findall(pat, stdout or "")
        if m:
            out[k] = int(m[-1])
    return out


def read_csv(text):
    if not text or not text.strip():
        return []
    return list(csv.DictReader(io.StringIO(text)))
