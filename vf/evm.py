"""E1 -- reference EVM basic-block interpreter (pure stdlib, never imports /repo).

Executes a straight-line list of instructions ``(name, arg)`` on a concrete
machine state and returns an Outcome that can be compared with ``equivalent``.
Semantics follow the Yellow Paper / EIPs (145 shifts, 1014 CREATE2, 1344, 1884,
3198, 3855).  External operations are *adversarial but deterministic in the
event*: their effect is a keyed hash of everything they can observe.
"""
import hashlib

M256 = (1 << 256)
MASK = M256 - 1
M160 = (1 << 160) - 1
SIGN = 1 << 255
MEM_LIMIT = 1 << 32          # an address above this is out of the modelled domain
DATA_LIMIT = 1 << 16         # byte ranges longer than this are out of domain (out of gas)


class OutOfDomain(Exception):
    """state outside the modelled domain (huge memory address / range)"""


class StackUnderflow(Exception):
    pass


class Unsupported(OutOfDomain):
    """an instruction whose value is not a function of the machine state modelled here (PC): no state is in the domain"""


def H(*parts):
    """keyed hash -> 256-bit int"""
    h = hashlib.blake2b(digest_size=32)
    for p in parts:
        if isinstance(p, int):
            h.update(b"i" + p.to_bytes(40, "big", signed=False) if p >= 0 else b"n" + (-p).to_bytes(40, "big"))
        elif isinstance(p, bytes):
            h.update(b"b" + len(p).to_bytes(4, "big") + p)
        elif isinstance(p, str):
            e = p.encode()
            h.update(b"s" + len(e).to_bytes(4, "big") + e)
        elif isinstance(p, (tuple, list)):
            h.update(b"t" + H(*p).to_bytes(32, "big"))
        elif p is None:
            h.update(b"N")
        else:
            raise TypeError(type(p))
    return int.from_bytes(h.digest(), "big")


def to_signed(x):
    return x - M256 if x & SIGN else x


# ---------------------------------------------------------------- pure opcodes
def op_add(a, b): return (a + b) & MASK
def op_mul(a, b): return (a * b) & MASK
def op_sub(a, b): return (a - b) & MASK
def op_div(a, b): return 0 if b == 0 else a // b


def op_sdiv(a, b):
    if b == 0:
        return 0
    sa, sb = to_signed(a), to_signed(b)
    q = abs(sa) // abs(sb)
    if (sa < 0) != (sb < 0):
        q = -q
    return q & MASK


def op_mod(a, b): return 0 if b == 0 else a % b


def op_smod(a, b):
    if b == 0:
        return 0
    sa, sb = to_signed(a), to_signed(b)
    r = abs(sa) % abs(sb)
    if sa < 0:
        r = -r
    return r & MASK


def op_addmod(a, b, n): return 0 if n == 0 else (a + b) % n
def op_mulmod(a, b, n): return 0 if n == 0 else (a * b) % n
def op_exp(a, b): return pow(a, b, M256)


def op_signextend(k, x):
    if k >= 31:
        return x
    bit = 8 * k + 7
    mask = (1 << (bit + 1)) - 1
    if x & (1 << bit):
        return (x | (MASK ^ mask)) & MASK
    return x & mask


def op_lt(a, b): return 1 if a < b else 0
def op_gt(a, b): return 1 if a > b else 0
def op_slt(a, b): return 1 if to_signed(a) < to_signed(b) else 0
def op_sgt(a, b): return 1 if to_signed(a) > to_signed(b) else 0
def op_eq(a, b): return 1 if a == b else 0
def op_iszero(a): return 1 if a == 0 else 0
def op_and(a, b): return a & b
def op_or(a, b): return a | b
def op_xor(a, b): return a ^ b
def op_not(a): return a ^ MASK


def op_byte(i, x):
    if i >= 32:
        return 0
    return (x >> (8 * (31 - i))) & 0xFF


def op_shl(s, v): return 0 if s >= 256 else (v << s) & MASK
def op_shr(s, v): return 0 if s >= 256 else v >> s


def op_sar(s, v):
    sv = to_signed(v)
    if s >= 256:
        return MASK if sv < 0 else 0
    return (sv >> s) & MASK


PURE = {
    "ADD": (2, op_add), "MUL": (2, op_mul), "SUB": (2, op_sub), "DIV": (2, op_div),
    "SDIV": (2, op_sdiv), "MOD": (2, op_mod), "SMOD": (2, op_smod),
    "ADDMOD": (3, op_addmod), "MULMOD": (3, op_mulmod), "EXP": (2, op_exp),
    "SIGNEXTEND": (2, op_signextend), "LT": (2, op_lt), "GT": (2, op_gt),
    "SLT": (2, op_slt), "SGT": (2, op_sgt), "EQ": (2, op_eq), "ISZERO": (1, op_iszero),
    "AND": (2, op_and), "OR": (2, op_or), "XOR": (2, op_xor), "NOT": (1, op_not),
    "BYTE": (2, op_byte), "SHL": (2, op_shl), "SHR": (2, op_shr), "SAR": (2, op_sar),
}
COMMUTATIVE = {"ADD", "MUL", "EQ", "AND", "OR", "XOR"}

# zero-ary environment reads: name -> bit width of the guaranteed range
ENV0 = {
    "ADDRESS": 160, "ORIGIN": 160, "CALLER": 160, "CALLVALUE": 256, "CALLDATASIZE": 32,
    "CODESIZE": 16, "GASPRICE": 64, "COINBASE": 160, "TIMESTAMP": 64, "NUMBER": 64,
    "DIFFICULTY": 256, "PREVRANDAO": 256, "GASLIMIT": 64, "CHAINID": 64, "BASEFEE": 64,
}
# unary environment functions
ENV1 = {"BALANCE", "EXTCODESIZE", "EXTCODEHASH", "BLOCKHASH", "CALLDATALOAD"}

PSEUDO_PUSH = {
    "PUSH [tag]": 32, "PUSH #[$]": 32, "PUSH [$]": 32, "PUSH data": 32, "PUSHSIZE": 32,
    "PUSHLIB": 160, "PUSHDEPLOYADDRESS": 160, "PUSHIMMUTABLE": 256,
}
TERMINALS = {"JUMP", "JUMPI", "STOP", "RETURN", "REVERT", "INVALID", "SELFDESTRUCT"}
SPLIT = {"LOG0", "LOG1", "LOG2", "LOG3", "LOG4", "CALLDATACOPY", "CODECOPY", "EXTCODECOPY",
         "RETURNDATACOPY", "CALL", "STATICCALL", "DELEGATECALL", "CREATE", "CREATE2",
         "ASSIGNIMMUTABLE", "GAS", "CALLCODE"}

# (pops, pushes) for everything the interpreter knows; DUP/SWAP handled apart
ARITY = {n: (a, 1) for n, (a, _) in PURE.items()}
ARITY.update({n: (0, 1) for n in ENV0})
ARITY.update({n: (1, 1) for n in ENV1})
ARITY.update({n: (0, 1) for n in PSEUDO_PUSH})
ARITY.update({
    "PUSH": (0, 1), "PUSH0": (0, 1), "POP": (1, 0), "SELFBALANCE": (0, 1), "RETURNDATASIZE": (0, 1),
    "MLOAD": (1, 1), "MSTORE": (2, 0), "MSTORE8": (2, 0), "SLOAD": (1, 1), "SSTORE": (2, 0),
    "KECCAK256": (2, 1), "SHA3": (2, 1), "GAS": (0, 1),
    "LOG0": (2, 0), "LOG1": (3, 0), "LOG2": (4, 0), "LOG3": (5, 0), "LOG4": (6, 0),
    "CALLDATACOPY": (3, 0), "CODECOPY": (3, 0), "RETURNDATACOPY": (3, 0), "EXTCODECOPY": (4, 0),
    "CALL": (7, 1), "CALLCODE": (7, 1), "DELEGATECALL": (6, 1), "STATICCALL": (6, 1),
    "CREATE": (3, 1), "CREATE2": (4, 1), "ASSIGNIMMUTABLE": (2, 0),
    "JUMP": (1, 0), "JUMPI": (2, 0), "STOP": (0, 0), "RETURN": (2, 0), "REVERT": (2, 0),
    "INVALID": (0, 0), "SELFDESTRUCT": (1, 0), "tag": (0, 0), "JUMPDEST": (0, 0),
    "PC": (0, 1),          # known to the readers and generators of naturally failing blocks; not modelled (Unsupported)
})
for _k in range(1, 17):
    ARITY["DUP%d" % _k] = (_k, _k + 1)
    ARITY["SWAP%d" % _k] = (_k + 1, _k + 1)


def arity(name):
    return ARITY[name]


def need_and_delta(instrs):
    """minimum input stack depth and net height change of an instruction list"""
    cur = 0
    need = 0
    for name, _ in instrs:
        a, p = ARITY[name]
        if a > cur + need:
            need = a - cur
        cur += p - a
    return need, cur


def pseudo_value(kind, operand):
    """value pushed by a pseudo push: keyed hash of (kind, numeric operand)"""
    bits = PSEUDO_PUSH[kind]
    return H("pp", kind, operand if operand is not None else "") & ((1 << bits) - 1)


def pseudo_key(kind, operand):
    """numeric operand under the file format's convention (decimal for tags, hex otherwise)"""
    if operand is None:
        return None
    if isinstance(operand, int):
        return operand
    try:
        return int(operand, 10) if kind in ("PUSH [tag]", "tag") else int(operand, 16)
    except ValueError:
        return "raw:" + str(operand)


class State:
    """initial machine state.  stack[0] is the TOP."""

    def __init__(self, stack, key=0, env=None):
        self.stack = list(stack)
        self.key = key
        self.env = env or {}

    def to_json(self):
        return {"stack": [hex(x) for x in self.stack], "key": self.key,
                "env": {k: hex(v) for k, v in self.env.items()}}

    @staticmethod
    def from_json(d):
        return State([int(x, 16) for x in d["stack"]], d.get("key", 0),
                     {k: int(v, 16) for k, v in d.get("env", {}).items()})


class Outcome:
    __slots__ = ("status", "trace", "stack", "mem", "sto", "sto_epoch", "target", "cond", "min_depth")

    def summary(self):
        return {"status": self.status, "trace": [repr(e)[:200] for e in self.trace],
                "stack": [hex(x) for x in self.stack],
                "mem": {hex(k): v for k, v in sorted(self.mem.items())[:96]},
                "sto": {hex(k): hex(v) for k, v in sorted(self.sto.items())},
                "target": None if self.target is None else hex(self.target), "cond": self.cond}


class Machine:
    def __init__(self, state):
        self.st = list(reversed(state.stack))     # python list, top = last
        self.key = state.key
        self.env = state.env
        self.mem = {}
        self.sto = {}
        self.sto_epoch = H("sto0", state.key)
        self.acct_epoch = H("acct0", state.key)
        self.rds = H("rds0", state.key) & 0xFF
        self.trace = []
        self.min_len = len(self.st)

    # ---- stack
    def pop(self):
        if not self.st:
            raise StackUnderflow()
        v = self.st.pop()
        if len(self.st) < self.min_len:
            self.min_len = len(self.st)
        return v

    def push(self, v):
        self.st.append(v)

    # ---- memory
    def _chk(self, off, ln):
        if ln == 0:
            return
        if off >= MEM_LIMIT or ln > DATA_LIMIT:
            raise OutOfDomain()

    def bg_mem(self, off):
        return H("mem", self.key, off >> 5).to_bytes(32, "big")[off & 31]

    def mread(self, off, ln):
        self._chk(off, ln)
        m = self.mem
        out = bytearray(ln)
        i = 0
        while i < ln:
            o = off + i
            b = m.get(o)
            if b is None:
                # fetch background chunk-wise
                chunk = H("mem", self.key, o >> 5).to_bytes(32, "big")
                j = o & 31
                while j < 32 and i < ln:
                    b2 = m.get(off + i)
                    out[i] = chunk[j] if b2 is None else b2
                    i += 1
                    j += 1
                continue
            out[i] = b
            i += 1
        return bytes(out)

    def mwrite(self, off, data):
        self._chk(off, len(data))
        m = self.mem
        for i, b in enumerate(data):
            m[off + i] = b

    # ---- storage
    def sload(self, k):
        v = self.sto.get(k)
        return H("sto", self.sto_epoch, k) if v is None else v

    def sto_digest(self):
        return H("stod", self.sto_epoch, tuple(x for kv in sorted(self.sto.items()) for x in kv))

    def envval(self, name):
        v = self.env.get(name)
        if v is None:
            v = H("env", self.key, name) & ((1 << ENV0[name]) - 1)
        return v

    def rekey_world(self, ev, storage=True):
        h = H("ev", ev)
        if storage:
            self.sto_epoch = H("sto+", self.sto_epoch, h)
            self.sto = {}
        self.acct_epoch = H("acct+", self.acct_epoch, h)
        return h


def run(instrs, state):
    """execute; returns Outcome.  Raises StackUnderflow / OutOfDomain / Unsupported."""
    m = Machine(state)
    pop, push = m.pop, m.push
    status, target, cond = "fall", None, None
    for name, arg in instrs:
        p = PURE.get(name)
        if p is not None:
            n, f = p
            if n == 2:
                a = pop(); b = pop(); push(f(a, b))
            elif n == 1:
                push(f(pop()))
            else:
                a = pop(); b = pop(); c = pop(); push(f(a, b, c))
        elif name == "PUSH":
            push(arg & MASK)
        elif name == "PUSH0":
            push(0)
        elif name == "POP":
            pop()
        elif name.startswith("DUP"):
            k = int(name[3:])
            if len(m.st) < k:
                raise StackUnderflow()
            if len(m.st) - k < m.min_len:
                m.min_len = len(m.st) - k
            push(m.st[-k])
        elif name.startswith("SWAP"):
            k = int(name[4:])
            if len(m.st) < k + 1:
                raise StackUnderflow()
            if len(m.st) - k - 1 < m.min_len:
                m.min_len = len(m.st) - k - 1
            m.st[-1], m.st[-k - 1] = m.st[-k - 1], m.st[-1]
        elif name in PSEUDO_PUSH:
            push(pseudo_value(name, pseudo_key(name, arg)))
        elif name in ENV0:
            push(m.envval(name))
        elif name == "SELFBALANCE":
            push(H("BALANCE", m.acct_epoch, m.envval("ADDRESS")))
        elif name == "BALANCE":
            push(H("BALANCE", m.acct_epoch, pop() & M160))
        elif name == "EXTCODESIZE":
            push(H("EXTCODESIZE", m.acct_epoch, pop() & M160) & 0xFFFF)
        elif name == "EXTCODEHASH":
            push(H("EXTCODEHASH", m.acct_epoch, pop() & M160))
        elif name == "BLOCKHASH":
            push(H("BLOCKHASH", m.key, pop()))
        elif name == "CALLDATALOAD":
            push(H("CALLDATALOAD", m.key, pop()))
        elif name == "RETURNDATASIZE":
            push(m.rds)
        elif name == "MLOAD":
            push(int.from_bytes(m.mread(pop(), 32), "big"))
        elif name == "MSTORE":
            o = pop(); v = pop(); m.mwrite(o, v.to_bytes(32, "big"))
        elif name == "MSTORE8":
            o = pop(); v = pop(); m.mwrite(o, bytes([v & 0xFF]))
        elif name == "SLOAD":
            push(m.sload(pop()))
        elif name == "SSTORE":
            k = pop(); v = pop(); m.sto[k] = v
        elif name in ("KECCAK256", "SHA3"):
            o = pop(); ln = pop()
            push(int.from_bytes(hashlib.sha3_256(m.mread(o, ln)).digest(), "big"))
        elif name == "GAS":
            ev = ("GAS", len(m.trace))
            m.trace.append(ev)
            push(H("gas", m.key, len(m.trace)))
        elif name.startswith("LOG"):
            n = int(name[3:])
            o = pop(); ln = pop()
            topics = tuple(pop() for _ in range(n))
            m.trace.append((name, topics, m.mread(o, ln)))
        elif name in ("CALLDATACOPY", "CODECOPY", "RETURNDATACOPY"):
            d = pop(); s = pop(); ln = pop()
            ev = (name, d, s, ln)
            m.trace.append(ev)
            m._chk(d, ln)
            m.mwrite(d, _stream(H("copy", m.key, name, s, ln, m.rds if name == "RETURNDATACOPY" else 0), ln))
        elif name == "EXTCODECOPY":
            a = pop(); d = pop(); s = pop(); ln = pop()
            ev = (name, a & M160, d, s, ln)
            m.trace.append(ev)
            m._chk(d, ln)
            m.mwrite(d, _stream(H("copy", m.acct_epoch, name, a & M160, s, ln), ln))
        elif name in ("CALL", "CALLCODE", "DELEGATECALL", "STATICCALL"):
            g = pop(); a = pop()
            v = pop() if name in ("CALL", "CALLCODE") else 0
            io = pop(); il = pop(); oo = pop(); ol = pop()
            data = m.mread(io, il)
            m._chk(oo, ol)
            ev = (name, g, a & M160, v, data, oo, ol, m.sto_digest())
            m.trace.append(ev)
            h = m.rekey_world(ev, storage=(name != "STATICCALL"))
            m.mwrite(oo, _stream(H("ret", h), ol))
            m.rds = ol + (h & 0x3F)
            push(h & 1)
        elif name in ("CREATE", "CREATE2"):
            v = pop(); o = pop(); ln = pop()
            salt = pop() if name == "CREATE2" else 0
            ev = (name, v, m.mread(o, ln), salt, m.sto_digest())
            m.trace.append(ev)
            h = m.rekey_world(ev)
            m.rds = h & 0x3F
            push(h & M160)
        elif name == "ASSIGNIMMUTABLE":
            a = pop(); b = pop()
            m.trace.append((name, pseudo_key("PUSHIMMUTABLE", arg), a, b))
        elif name in ("tag", "JUMPDEST"):
            pass
        elif name == "JUMP":
            target = pop(); status = "jump"; break
        elif name == "JUMPI":
            target = pop(); cond = pop() != 0; status = "jumpi"; break
        elif name == "STOP":
            status = "stop"; break
        elif name == "RETURN":
            o = pop(); ln = pop()
            m.trace.append(("RETURN", m.mread(o, ln))); status = "return"; break
        elif name == "REVERT":
            o = pop(); ln = pop()
            m.trace.append(("REVERT", m.mread(o, ln))); status = "revert"; break
        elif name == "INVALID":
            status = "invalid"; break
        elif name == "SELFDESTRUCT":
            m.trace.append(("SELFDESTRUCT", pop() & M160)); status = "selfdestruct"; break
        else:
            raise Unsupported(name)
    out = Outcome()
    out.status = status
    out.trace = m.trace
    out.stack = list(reversed(m.st))
    out.mem = m.mem
    out.sto = m.sto
    out.sto_epoch = m.sto_epoch
    out.target = target
    out.cond = cond
    out.min_depth = len(state.stack) - m.min_len
    # normalise memory/storage against the background so that equal contents compare equal
    return out, m


def _stream(seed, ln):
    out = bytearray()
    i = 0
    while len(out) < ln:
        out += H("st", seed, i).to_bytes(32, "big")
        i += 1
    return bytes(out[:ln])


def _mem_diff(ma, a, mb, b):
    for off in set(a.mem) | set(b.mem):
        va = a.mem.get(off)
        vb = b.mem.get(off)
        if va is None:
            va = ma.bg_mem(off)
        if vb is None:
            vb = mb.bg_mem(off)
        if va != vb:
            return "memory byte %#x: %#x vs %#x" % (off, va, vb)
    return None


def _sto_diff(ma, a, mb, b):
    if a.sto_epoch != b.sto_epoch:
        return "storage world differs (call/create history)"
    for k in set(a.sto) | set(b.sto):
        va, vb = ma.sload(k), mb.sload(k)
        if va != vb:
            return "storage slot %#x: %#x vs %#x" % (k, va, vb)
    return None


def difference(res_a, res_b):
    """None if the two (Outcome, Machine) results are observationally equal, else a reason."""
    (a, ma), (b, mb) = res_a, res_b
    if len(a.trace) != len(b.trace):
        return "trace length %d vs %d" % (len(a.trace), len(b.trace))
    for i, (ea, eb) in enumerate(zip(a.trace, b.trace)):
        if ea != eb:
            return "event %d differs: %r vs %r" % (i, _short(ea), _short(eb))
    if a.status != b.status:
        return "status %s vs %s" % (a.status, b.status)
    st = a.status
    if st in ("revert", "invalid"):
        return None
    if st in ("stop", "return", "selfdestruct"):
        return _sto_diff(ma, a, mb, b)
    if st == "jump" and a.target != b.target:
        return "jump target %#x vs %#x" % (a.target, b.target)
    if st == "jumpi":
        if a.cond != b.cond:
            return "jumpi condition %s vs %s" % (a.cond, b.cond)
        if a.cond and a.target != b.target:
            return "jumpi target %#x vs %#x" % (a.target, b.target)
    if a.stack != b.stack:
        if len(a.stack) != len(b.stack):
            return "stack height %d vs %d" % (len(a.stack), len(b.stack))
        for i, (x, y) in enumerate(zip(a.stack, b.stack)):
            if x != y:
                return "stack[%d] %#x vs %#x" % (i, x, y)
    return _mem_diff(ma, a, mb, b) or _sto_diff(ma, a, mb, b)


def _short(ev):
    return tuple((x.hex()[:40] if isinstance(x, bytes) else x) for x in ev)


# ------------------------------------------------------------------ taint pass
ADDR_OPERANDS = {
    "MLOAD": (0,), "MSTORE": (0,), "MSTORE8": (0,), "KECCAK256": (0, 1), "SHA3": (0, 1),
    "LOG0": (0, 1), "LOG1": (0, 1), "LOG2": (0, 1), "LOG3": (0, 1), "LOG4": (0, 1),
    "CALL": (3, 4, 5, 6), "CALLCODE": (3, 4, 5, 6), "DELEGATECALL": (2, 3, 4, 5), "STATICCALL": (2, 3, 4, 5),
    "CREATE": (1, 2), "CREATE2": (1, 2), "CALLDATACOPY": (0, 2), "CODECOPY": (0, 2),
    "RETURNDATACOPY": (0, 2), "EXTCODECOPY": (1, 3), "RETURN": (0, 1), "REVERT": (0, 1),
}
SIZE_OPERANDS = {
    "KECCAK256": (1,), "SHA3": (1,), "LOG0": (1,), "LOG1": (1,), "LOG2": (1,), "LOG3": (1,), "LOG4": (1,),
    "CALL": (4, 6), "CALLCODE": (4, 6), "DELEGATECALL": (3, 5), "STATICCALL": (3, 5),
    "CREATE": (2,), "CREATE2": (2,), "CALLDATACOPY": (2,), "CODECOPY": (2,),
    "RETURNDATACOPY": (2,), "EXTCODECOPY": (3,), "RETURN": (1,), "REVERT": (1,),
}


def address_slots(instrs, need):
    """(addr_slots, size_slots): indices (0 = top) of input stack words that can flow
    into a memory address / a byte-range length.  Coarse taint analysis."""
    st = [frozenset([i]) for i in reversed(range(need))]   # top last
    memt = frozenset()
    addr, size = set(), set()
    for name, _ in instrs:
        if name.startswith("DUP"):
            st.append(st[-int(name[3:])])
            continue
        if name.startswith("SWAP"):
            k = int(name[4:])
            st[-1], st[-k - 1] = st[-k - 1], st[-1]
            continue
        a, p = ARITY[name]
        ops = [st.pop() for _ in range(a)]
        for i in ADDR_OPERANDS.get(name, ()):
            addr |= ops[i]
        for i in SIZE_OPERANDS.get(name, ()):
            size |= ops[i]
        t = frozenset().union(*ops) if ops else frozenset()
        if name in ("MSTORE", "MSTORE8") or name in SPLIT:
            memt = memt | t
        if name in ("MLOAD", "KECCAK256", "SHA3"):
            t = t | memt
        if name in TERMINALS:
            break
        for _ in range(p):
            st.append(t)
    return addr, size
