"""E2 (blocks) -- Hypothesis strategies constructing stack-valid EVM basic blocks.

Construction, not rejection: the generator tracks the symbolic stack height and only draws
instructions that are applicable, so every drawn block is valid for ``need(B)`` words.
"""
import glob
import json
import os
from hypothesis import strategies as st
from . import evm, asm

B = evm.M256
CONSTS = [0, 1, 2, 3, 0x1F, 0x20, 0x21, 0x3F, 0x40, 0x60, 0xFF, 0x100, (1 << 160) - 1,
          (1 << 255) - 1, 1 << 255, B - 2, B - 1]
OFFSET_BASES = [0, 0x20, 0x40, 0x80]
BIN = ["ADD", "MUL", "SUB", "DIV", "SDIV", "MOD", "SMOD", "EXP", "SIGNEXTEND", "LT", "GT", "SLT",
       "SGT", "EQ", "AND", "OR", "XOR", "BYTE", "SHL", "SHR", "SAR"]
UN = ["ISZERO", "NOT"]
TER = ["ADDMOD", "MULMOD"]
ENV0 = ["ADDRESS", "ORIGIN", "CALLER", "CALLVALUE", "CALLDATASIZE", "CODESIZE", "GASPRICE", "COINBASE",
        "TIMESTAMP", "NUMBER", "DIFFICULTY", "GASLIMIT", "CHAINID", "SELFBALANCE", "BASEFEE",
        "RETURNDATASIZE"]
ENV1 = ["BALANCE", "EXTCODESIZE", "EXTCODEHASH", "BLOCKHASH", "CALLDATALOAD"]
SPLITS = ["LOG0", "LOG1", "LOG2", "LOG3", "LOG4", "CALLDATACOPY", "CODECOPY", "EXTCODECOPY",
          "RETURNDATACOPY", "CALL", "STATICCALL", "DELEGATECALL", "CREATE", "CREATE2", "GAS"]
TERMS = ["JUMP", "JUMPI", "STOP", "RETURN", "REVERT", "INVALID"]
PSEUDO = [("PUSH [tag]", ["1", "2", "12", "300"]), ("PUSH data", ["A5", "974D1B4421DA69CC60B481194F0DAD36A5BB4E23DA810DA7A7FB30CDBA178330"]),
          ("PUSH #[$]", ["0000000000000000000000000000000000000000000000000000000000000000",
                         "0000000000000000000000000000000000000000000000000000000000000010"]),
          ("PUSH [$]", ["0000000000000000000000000000000000000000000000000000000000000000",
                        "0000000000000000000000000000000000000000000000000000000000000010"]),
          ("PUSHSIZE", [None]), ("PUSHDEPLOYADDRESS", [None]),
          ("PUSHIMMUTABLE", ["689", "1167"]),
          ("PUSHLIB", ["4C1B9F1F0BDA2A1B6E7D3F5A9C8E7D6B5A493827", "B2"])]

DEFAULT_PROFILE = dict(push=18, pseudo=2, dup=14, swap=12, pop=5, bin=16, un=6, ter=1, env0=4, env1=2,
                       mem=8, sto=4, keccak=2, split=2, idiom=8)
MEM_PROFILE = dict(push=14, pseudo=1, dup=12, swap=10, pop=4, bin=8, un=2, ter=0, env0=2, env1=1,
                   mem=26, sto=10, keccak=5, split=2, idiom=4)
ARITH_PROFILE = dict(push=24, pseudo=1, dup=14, swap=8, pop=3, bin=26, un=10, ter=3, env0=4, env1=1,
                     mem=2, sto=1, keccak=0, split=0, idiom=12)
SPLIT_PROFILE = dict(push=16, pseudo=2, dup=10, swap=10, pop=4, bin=10, un=3, ter=0, env0=3, env1=1,
                     mem=10, sto=6, keccak=1, split=12, idiom=3)


def const():
    return st.one_of(
        st.sampled_from(CONSTS),
        st.integers(0, 40),
        st.builds(lambda nbytes, v: v & ((1 << (8 * nbytes)) - 1), st.integers(1, 32), st.integers(0, B - 1)),
    )


def offset():
    return st.builds(lambda b, d: max(0, b + d), st.sampled_from(OFFSET_BASES), st.integers(-33, 33))


@st.composite
def body(draw, min_len=1, max_len=24, profile=None, max_need=10, allow_split=True):
    """list of (name,arg) without tag/terminal"""
    prof = dict(profile or DEFAULT_PROFILE)
    if not allow_split:
        prof["split"] = 0
    kinds = [k for k, w in prof.items() if w > 0]
    weights = [prof[k] for k in kinds]
    table = []
    for k, w in zip(kinds, weights):
        table += [k] * w
    n = draw(st.integers(min_len, max_len))
    out = []
    h = 0          # local height (values produced by this block and still there)
    need = 0       # words consumed from below so far

    def avail():
        return h + (max_need - need)

    def consume(a):
        nonlocal h, need
        if a > h:
            need += a - h
            h = 0
        else:
            h -= a

    def emit(name, arg=None):
        nonlocal h
        a, p = evm.ARITY[name]
        if name.startswith("DUP"):
            k = int(name[3:])
            if k > h:
                # touching below: extends need
                consume(k); h += k
            h += 1
        elif name.startswith("SWAP"):
            k = int(name[4:]) + 1
            if k > h:
                consume(k); h += k
        else:
            consume(a)
            h += p
        out.append((name, arg))

    while len(out) < n:
        kind = draw(st.sampled_from(table))
        if kind == "push":
            emit("PUSH", draw(const()))
        elif kind == "pseudo":
            nm, ops = draw(st.sampled_from(PSEUDO))
            emit(nm, draw(st.sampled_from(ops)))
        elif kind == "dup":
            lim = min(16, avail())
            if lim >= 1:
                k = draw(st.integers(1, min(lim, max(1, h + 2)))) if draw(st.integers(0, 9)) else draw(st.integers(1, lim))
                emit("DUP%d" % k)
        elif kind == "swap":
            lim = min(16, avail() - 1)
            if lim >= 1:
                k = draw(st.integers(1, min(lim, max(1, h + 1)))) if draw(st.integers(0, 9)) else draw(st.integers(1, lim))
                emit("SWAP%d" % k)
        elif kind == "pop":
            if avail() >= 1:
                emit("POP")
        elif kind == "bin":
            if avail() >= 2:
                emit(draw(st.sampled_from(BIN)))
        elif kind == "un":
            if avail() >= 1:
                emit(draw(st.sampled_from(UN)))
        elif kind == "ter":
            if avail() >= 3:
                emit(draw(st.sampled_from(TER)))
        elif kind == "env0":
            emit(draw(st.sampled_from(ENV0)))
        elif kind == "env1":
            if avail() >= 1:
                emit(draw(st.sampled_from(ENV1)))
        elif kind == "mem":
            form = draw(st.integers(0, 7))
            if form == 0:
                emit("PUSH", draw(offset())); emit("MLOAD")
            elif form == 1 and avail() >= 1:
                emit("PUSH", draw(offset())); emit("MSTORE")
            elif form == 2:
                emit("PUSH", draw(const())); emit("PUSH", draw(offset())); emit("MSTORE")
            elif form == 3 and avail() >= 1:
                emit("PUSH", draw(offset())); emit("MSTORE8")
            elif form == 4 and avail() >= 1:
                emit("MLOAD")
            elif form == 5 and avail() >= 2:
                emit(draw(st.sampled_from(["MSTORE", "MSTORE", "MSTORE8"])))
            elif form == 6 and avail() >= 1:
                emit("DUP%d" % draw(st.integers(1, min(16, max(1, min(avail(), h + 1)))))); emit("MLOAD")
            elif form == 7 and avail() >= 2:
                emit("DUP%d" % draw(st.integers(1, min(16, max(1, min(avail(), h + 1))))))
                emit("PUSH", draw(st.sampled_from([1, 0x1F, 0x20, 0x21, 0x40]))); emit("ADD")
                emit(draw(st.sampled_from(["MSTORE", "MLOAD"])))
        elif kind == "sto":
            form = draw(st.integers(0, 4))
            if form == 0:
                emit("PUSH", draw(st.integers(0, 3))); emit("SLOAD")
            elif form == 1 and avail() >= 1:
                emit("PUSH", draw(st.integers(0, 3))); emit("SSTORE")
            elif form == 2 and avail() >= 1:
                emit("SLOAD")
            elif form == 3 and avail() >= 2:
                emit("SSTORE")
            elif form == 4 and avail() >= 1:
                emit("DUP%d" % draw(st.integers(1, min(16, max(1, min(avail(), h + 1)))))); emit("SLOAD")
        elif kind == "keccak":
            form = draw(st.integers(0, 2))
            if form == 0:
                emit("PUSH", draw(st.sampled_from([0, 1, 0x20, 0x21, 0x40]))); emit("PUSH", draw(offset())); emit("KECCAK256")
            elif form == 1 and avail() >= 1:
                emit("PUSH", draw(st.sampled_from([0x20, 0x40]))); emit("SWAP1"); emit("KECCAK256")
            elif avail() >= 2:
                emit("KECCAK256")
        elif kind == "split":
            nm = draw(st.sampled_from(SPLITS))
            a, _ = evm.ARITY[nm]
            if draw(st.integers(0, 7)) == 0:
                # the one splitting instruction that carries an operand
                emit("PUSH", draw(st.integers(0, 66))); emit("PUSH", draw(offset())); emit("ASSIGNIMMUTABLE", draw(st.sampled_from(["11", "22", "1167"])))
            elif avail() >= a:
                if draw(st.booleans()):
                    # small operands so that the state stays inside the memory domain
                    for _ in range(min(a, 7)):
                        emit("PUSH", draw(st.one_of(offset(), st.integers(0, 66))))
                emit(nm)
        elif kind == "idiom":
            form = draw(st.integers(0, 9))
            if form == 0 and avail() >= 1:
                emit("DUP1"); emit(draw(st.sampled_from(BIN)))
            elif form == 1 and avail() >= 1:
                emit("PUSH", draw(st.sampled_from([0, 1, B - 1, 2, 0xFF, (1 << 160) - 1]))); emit(draw(st.sampled_from(BIN)))
            elif form == 2 and avail() >= 1:
                emit("PUSH", draw(st.sampled_from([0, 1, B - 1, 2]))); emit("SWAP1"); emit(draw(st.sampled_from(BIN)))
            elif form == 3 and avail() >= 1:
                for _ in range(draw(st.integers(2, 5))):
                    emit("ISZERO")
            elif form == 4 and avail() >= 2:
                emit(draw(st.sampled_from(["LT", "GT", "SLT", "SGT", "EQ", "SUB", "XOR"]))); emit("ISZERO")
                if draw(st.booleans()):
                    emit("ISZERO")
            elif form == 5:
                emit("PUSH", draw(const())); emit("PUSH", draw(const())); emit(draw(st.sampled_from(BIN)))
            elif form == 6 and avail() >= 1:
                emit("NOT"); emit("NOT")
            elif form == 7:
                emit(draw(st.sampled_from(["CALLER", "ADDRESS", "ORIGIN", "COINBASE"])))
                emit("PUSH", (1 << 160) - 1); emit("AND")
            elif form == 8 and avail() >= 2:
                op = draw(st.sampled_from(["AND", "OR", "XOR"]))
                emit("DUP2"); emit(op); emit(draw(st.sampled_from(["AND", "OR", "XOR"])))
            elif form == 9 and avail() >= 1:
                emit("PUSH", 1); emit("SWAP1"); emit("SHL"); emit(draw(st.sampled_from(["MUL", "DIV", "SWAP1"])))
    return out


@st.composite
def block(draw, head=True, tail=True, **kw):
    """full basic block: optional tag/JUMPDEST, body, optional terminal"""
    b = draw(body(**kw))
    out = []
    if head and draw(st.integers(0, 3)) == 0:
        out += [("tag", str(draw(st.integers(1, 400)))), ("JUMPDEST", None)]
    out += b
    if tail and draw(st.integers(0, 2)) == 0:
        t = draw(st.sampled_from(TERMS))
        if t in ("JUMP", "JUMPI") and draw(st.booleans()):
            out.append(("PUSH [tag]", str(draw(st.integers(1, 400)))))
        out.append((t, None))
    return out


# ------------------------------------------------------------------ corpus
_CORPUS = None


def corpus_files(repo="/repo"):
    fs = sorted(glob.glob(os.path.join(repo, "examples/jsons-solc/*.json_solc")))
    fs += sorted(glob.glob(os.path.join(repo, "tests/files/solc_v_0_8_15/*.json_solc")))
    return fs


def load_corpus(repo="/repo", max_files=None):
    """list of blocks (lists of (name,arg)) harvested from the shipped solc outputs, parsed
    with our own reader"""
    global _CORPUS
    if _CORPUS is not None:
        return _CORPUS
    seen, blocks = set(), []
    for f in corpus_files(repo)[:max_files]:
        try:
            doc = json.load(open(f))
        except Exception:
            continue
        for c in (doc.get("contracts") or {}).values():
            a = c.get("asm")
            if not a:
                continue
            for _, code in asm.walk_codes(a):
                for blk in asm.split_blocks(code):
                    try:
                        ins = asm.items_to_instrs(blk)
                    except asm.BadItem:
                        continue
                    if not asm.optimizable(ins) or len(ins) > 60:
                        continue
                    key = tuple(ins)
                    if key not in seen:
                        seen.add(key)
                        blocks.append(ins)
    _CORPUS = blocks
    return blocks


SAME_ARITY = {}
for _n in BIN:
    SAME_ARITY[_n] = BIN
for _n in UN:
    SAME_ARITY[_n] = UN
for _n in TER:
    SAME_ARITY[_n] = TER


@st.composite
def corpus_block(draw, mutate=True):
    blocks = load_corpus()
    b = list(draw(st.sampled_from(blocks)))
    if not mutate:
        return b
    for _ in range(draw(st.integers(0, 3))):
        if not b:
            break
        i = draw(st.integers(0, len(b) - 1))
        name, arg = b[i]
        m = draw(st.integers(0, 3))
        if name == "PUSH" and m <= 1:
            b[i] = ("PUSH", draw(st.sampled_from(CONSTS)))
        elif name in SAME_ARITY and m <= 2:
            b[i] = (draw(st.sampled_from(SAME_ARITY[name])), None)
        elif m == 3 and name not in asm.BLOCK_BEGIN and name not in asm.BLOCK_END:
            snippet = draw(st.sampled_from([
                [("DUP1", None), ("POP", None)], [("PUSH", 0), ("ADD", None)], [("PUSH", 1), ("MUL", None)],
                [("DUP1", None), ("SWAP1", None), ("POP", None)], [("ISZERO", None), ("ISZERO", None)],
                [("PUSH", 0), ("SHL", None)], [("NOT", None), ("NOT", None)], [("DUP1", None), ("XOR", None)],
                [("DUP1", None), ("AND", None)], [("PUSH", B - 1), ("AND", None)]]))
            b[i:i] = snippet
    return b


@st.composite
def two_store_block(draw):
    """two stores whose keys/addresses are symbolic (they collide on aliasing states) or equal constants"""
    kind = draw(st.sampled_from(["SSTORE", "MSTORE", "MSTORE8"]))
    kind2 = kind if kind == "SSTORE" else draw(st.sampled_from(["MSTORE", "MSTORE8"]))
    form = draw(st.integers(0, 3))
    pre = draw(body(min_len=0, max_len=4, profile=ARITH_PROFILE, allow_split=False, max_need=4)) if draw(st.booleans()) else []
    mid = draw(st.sampled_from([[], [("DUP1", None), ("POP", None)], [("PUSH", 7)], [("CALLER", None), ("POP", None)]]))
    if form == 0:
        seq = [(kind, None)] + mid + [(kind2, None)]
    elif form == 1:
        a, b, c, d = [draw(st.integers(1, 4)) for _ in range(4)]
        seq = [("DUP%d" % a, None), ("DUP%d" % b, None), (kind, None)] + mid + [("DUP%d" % c, None), ("DUP%d" % d, None), (kind2, None)]
    elif form == 2:
        k = draw(st.sampled_from([0, 1, 0x20, 0x3F, 0x40]))
        seq = [("PUSH", draw(st.integers(1, 9))), ("PUSH", k), (kind, None)] + mid + [("PUSH", draw(st.integers(10, 19))), ("PUSH", k + draw(st.sampled_from([0, 0, 1, 31, 32]))), (kind2, None)]
    else:
        seq = [("DUP2", None), ("DUP2", None), (kind, None), ("DUP1", None), ("SLOAD" if kind == "SSTORE" else "MLOAD", None), ("SWAP2", None), ("SWAP1", None), (kind2, None)]
    return pre + seq + draw(st.sampled_from([[], [("PUSH", 1)], [("STOP", None)]]))


@st.composite
def kept_loads_block(draw):
    """several loads whose results stay in the stack across a store that may alias them and whose stored value is built
    from them (the loads must be scheduled before the store and kept: exercises the forced-in-stack bookkeeping)"""
    k = draw(st.integers(2, 4))
    out = []
    for i in range(k):
        load = draw(st.sampled_from(["MLOAD", "MLOAD", "SLOAD"]))
        if draw(st.integers(0, 3)) == 0:
            out += [("DUP%d" % (k + 1), None), (load, None)]          # address from the stack
        else:
            out += [("PUSH", 0x40 + 0x20 * i + draw(st.sampled_from([0, 0, 1]))), (load, None)]
    depth = k
    for _ in range(draw(st.integers(1, 2))):
        a = draw(st.integers(1, depth))
        b = draw(st.integers(1, depth + 1))
        out += [("DUP%d" % a, None), ("DUP%d" % b, None), (draw(st.sampled_from(["SUB", "ADD", "AND", "LT", "XOR"])), None)]
        depth += 1
    store = draw(st.sampled_from(["MSTORE", "MSTORE", "SSTORE", "MSTORE8"]))
    if draw(st.booleans()):
        out += [("DUP%d" % (depth + 1), None), (store, None)]         # symbolic address: may alias every load
    else:
        out += [("PUSH", draw(st.sampled_from([0x40, 0x60, 0x80, 0x41]))), (store, None)]
    depth -= 1
    tail = draw(st.sampled_from([[], [("SWAP2", None), ("POP", None)], [("SWAP1", None)], [("POP", None)], [("DUP2", None), ("ADD", None)]]))
    return out + tail


@st.composite
def swapped_commutative_block(draw):
    """the same commutative operation computed twice with its operands in both orders (the two instructions are unified by
    the analysis, which records the renaming in its bookkeeping)"""
    op = draw(st.sampled_from(sorted(evm.COMMUTATIVE)))
    form = draw(st.integers(0, 3))
    I = lambda *names: [(n, None) for n in names]
    if form == 0:
        b = I("DUP2", "DUP2", op, "SWAP2", op)
    elif form == 1:
        c = draw(st.sampled_from([1, 2, 0x20, 0xFF]))
        b = [("PUSH", c)] + I("DUP2", op, "SWAP1") + [("PUSH", c)] + I(op)
    elif form == 2:
        b = I("DUP1", "DUP3", op, "DUP3", "DUP3", op)
    else:
        b = I("CALLER", "DUP2", op, "SWAP1", "CALLER", op)
    pre = draw(st.sampled_from([[], I("SWAP1"), I("DUP3"), [("PUSH", 5)], I("DUP2", "DUP2")]))
    post = draw(st.sampled_from([[], I("SWAP1"), I("POP"), [("PUSH", 0)] + I("MSTORE"), I("SUB"), I("DUP2", "SSTORE")]))
    return pre + b + post


@st.composite
def store_terms_block(draw):
    """stores whose operands are stack inputs / small terms at varying depths (their variable names s(k) vary with the depth)"""
    I = lambda *names: [(n, None) for n in names]
    n = draw(st.integers(1, 3))
    out = []
    for _ in range(n):
        store = draw(st.sampled_from(["MSTORE", "SSTORE", "MSTORE", "MSTORE8"]))
        form = draw(st.integers(0, 4))
        if form == 0:
            out += I(store)
        elif form == 1:
            out += I("DUP%d" % draw(st.integers(1, 4)), "DUP%d" % draw(st.integers(1, 5)), store)
        elif form == 2:
            out += [("PUSH", 0x20)] + I("ADD", "SWAP%d" % draw(st.integers(1, 3)), store)
        elif form == 3:
            out += I("SWAP%d" % draw(st.integers(1, 3)), "SWAP1", store)
        else:
            out += [("PUSH", 0x40)] + I("MLOAD", "DUP1") + [("PUSH", 0x20)] + I("ADD", "SWAP3", "SWAP1", store, "SWAP1", store)
    return out + draw(st.sampled_from([[], I("POP"), I("SWAP1")]))


@st.composite
def unused_hashes_block(draw):
    """several KECCAK256 / loads whose results are dropped, between stores to the hashed ranges (the unused instructions are
    removed from the specification and the dependences they carried are re-linked)"""
    out = []
    n = draw(st.integers(2, 4))
    for i in range(n):
        base = draw(st.sampled_from([0, 0x20, 0x40, 0x80]))
        out += [("DUP%d" % draw(st.integers(1, 3)), None), ("PUSH", base), (draw(st.sampled_from(["MSTORE", "MSTORE", "MSTORE8"])), None)]
        kind = draw(st.integers(0, 3))
        if kind <= 1:
            out += [("PUSH", draw(st.sampled_from([0x20, 0x40, 1]))), ("PUSH", base), ("KECCAK256", None), ("POP", None)]
        elif kind == 2:
            out += [("PUSH", base), ("MLOAD", None), ("POP", None)]
        else:
            out += [("PUSH", draw(st.sampled_from([0x20, 0x40]))), ("PUSH", base), ("KECCAK256", None)]      # a used one in between
        if draw(st.booleans()):
            out += [("DUP%d" % draw(st.integers(1, 3)), None), ("PUSH", base), ("MSTORE", None)]
    return out


@st.composite
def failing_block(draw):
    """blocks whose analysis fails on the pinned tree (contained: the block is kept): the value of PC is never found by the
    symbolic search (RecursionError).  They matter as *predecessors* of other blocks."""
    I = lambda *names: [(n, None) for n in names]
    core = draw(st.sampled_from([I("PC") + [("PUSH", 1)] + I("SSTORE"), I("PC", "DUP1", "ADD"), [("PUSH", 1)] + I("PC", "LT"),
                                 I("CALLER", "PC", "ADD", "SWAP1"), I("PC", "DUP2", "MSTORE")]))
    pre = draw(st.sampled_from([[], [("PUSH", 3), ("PUSH", 4), ("ADD", None)], I("DUP1", "ISZERO")]))
    return pre + core


@st.composite
def operand_split_block(draw):
    """several splitting instructions of the same kind with different operands / arguments, each preceded by something the
    optimizer can improve (the splitting instruction is re-inserted when the sub-blocks are joined again)"""
    n = draw(st.integers(2, 3))
    out = []
    kind = draw(st.sampled_from(["ASSIGNIMMUTABLE", "ASSIGNIMMUTABLE", "LOG1", "CALLDATACOPY", "MSTORE"]))
    ids = draw(st.permutations(["11", "22", "33"]))
    for i in range(n):
        out += draw(st.sampled_from([[("PUSH", 1), ("PUSH", 2), ("ADD", None)], [("PUSH", 3), ("PUSH", 0), ("ADD", None)],
                                     [("CALLER", None), ("DUP1", None), ("SWAP1", None), ("POP", None)], [("PUSH", 5)]]))
        if kind == "ASSIGNIMMUTABLE":
            out += [("PUSH", 0x40 + 0x20 * i), ("ASSIGNIMMUTABLE", ids[i] if draw(st.integers(0, 4)) else ids[0])]
        elif kind == "LOG1":
            out += [("PUSH", 0x20), ("PUSH", 0x40 * i), ("LOG1", None)]
        elif kind == "CALLDATACOPY":
            out += [("PUSH", 0x20), ("PUSH", i), ("CALLDATACOPY", None)]
        else:
            out += [("PUSH", 0x40 + 0x20 * i), ("MSTORE", None)]
    return out + draw(st.sampled_from([[], [("PUSH", 0), ("PUSH", 5), ("ADD", None)], [("POP", None)]]))


@st.composite
def dead_load_by_rule_block(draw):
    """two loads, one of which loses its only use through a simplification rule (X-X, X^X, X<X, 0*X, 0&X ...), next to a
    store that may alias both (the surviving load must keep its ordering with the store)"""
    I = lambda *names: [(n, None) for n in names]
    load = draw(st.sampled_from(["MLOAD", "MLOAD", "SLOAD"]))
    store = "SSTORE" if load == "SLOAD" else draw(st.sampled_from(["MSTORE", "MSTORE8"]))
    a1 = draw(st.sampled_from([I(), [("PUSH", 0x40)], I("DUP3")]))          # [] = address from the stack top
    a2 = draw(st.sampled_from([I("DUP3"), [("PUSH", 0)], [("PUSH", 0x60)], I("DUP4")]))
    kill = draw(st.sampled_from([I("DUP1", "SUB"), I("DUP1", "XOR"), I("DUP1", "LT"), I("DUP1", "GT"), I("DUP1", "EQ"), I("DUP1", "SGT"),
                                 [("PUSH", 0)] + I("MUL"), [("PUSH", 0)] + I("AND"), I("DUP2", "OR", "AND"), I("DUP2", "AND", "OR"),
                                 I("POP") + [("PUSH", 7)]]))
    out = a1 + I(load) + a2 + I(load) + kill
    if draw(st.booleans()):
        out += I("DUP%d" % draw(st.integers(3, 5)), store)                       # value = rule result, symbolic address
    else:
        out += [("PUSH", draw(st.sampled_from([0, 0x40, 0x41])))] + I(store)
    return out + draw(st.sampled_from([[], I("POP"), I("SWAP1"), I("DUP1", load)]))


@st.composite
def dup_tradeoff_block(draw):
    """duplicated one-byte constants next to duplicated 2-gas zero-operand opcodes: re-computing instead of DUP keeps the
    length, saves gas on the opcodes and costs bytes on the constants (candidates that tie in one criterion and pull the
    other two in opposite directions)"""
    I = lambda *names: [(n, None) for n in names]
    out = []
    n = 0
    for _ in range(draw(st.integers(1, 3))):
        if draw(st.booleans()):
            out += [("PUSH", draw(st.sampled_from([5, 0x20, 0xFF, 0x100, 0xFFFF])))] + I("DUP1") * draw(st.integers(1, 2))
        else:
            out += I(draw(st.sampled_from(["CALLVALUE", "CALLER", "ADDRESS", "ORIGIN", "CALLDATASIZE", "GASPRICE", "TIMESTAMP"]))) + I("DUP1") * draw(st.integers(1, 2))
    n = sum(1 for x in out if x[0] != "DUP1") + sum(1 for x in out if x[0] == "DUP1")
    op = draw(st.sampled_from(["ADD", "XOR", "OR", "MUL"]))
    out += I(op) * (n - 1)
    return out + draw(st.sampled_from([[], [("PUSH", 0)] + I("MSTORE"), I("SWAP1", "POP")]))

