"""ddmin-style shrinking of instruction lists (understands that any DUP/SWAP/op sequence is
stack-valid for its own need)."""
import time


def shrink_block(instrs, still, budget_s=40, max_need=16):
    """still(candidate_instrs) -> Failure or None.  returns the Failure of the smallest candidate
    found (or None if even the original does not fail any more)."""
    from . import evm
    t0 = time.time()
    best = list(instrs)
    best_f = still(best)
    if best_f is None:
        return None

    def ok(c):
        if not c:
            return None
        try:
            need, _ = evm.need_and_delta(c)
        except KeyError:
            return None
        if need > max_need:
            return None
        return still(c)

    n = 2
    while len(best) >= 2 and time.time() - t0 < budget_s:
        chunk = max(1, len(best) // n)
        reduced = False
        i = 0
        while i < len(best) and time.time() - t0 < budget_s:
            cand = best[:i] + best[i + chunk:]
            f = ok(cand)
            if f is not None:
                best, best_f = cand, f
                reduced = True
            else:
                i += chunk
        if reduced:
            n = max(2, n - 1)
        elif chunk == 1:
            break
        else:
            n = min(len(best), n * 2)
    # simplify constants
    for i, (name, arg) in enumerate(list(best)):
        if time.time() - t0 > budget_s:
            break
        if name == "PUSH" and arg not in (0, 1):
            for c in (0, 1, 2):
                cand = list(best)
                cand[i] = ("PUSH", c)
                f = ok(cand)
                if f is not None:
                    best, best_f = cand, f
                    break
    return best_f
