"""C06 -- every model of the Max-SMT encoding decodes to a realizing sequence; the emitted text is well formed."""
import json
import random
import time
from hypothesis import given, settings, seed, strategies as st, HealthCheck, Phase

from .. import evm, asm, hermetic, runner, pipeline, gen, seqcheck, options
from . import smtcommon

ID = "C06"
RULE = ("specifications of small blocks (bounded-exhaustive over a 15-instruction vocabulary: all blocks of length <= 2 in quick, "
        "<= 3 plus a seeded sample of length 4-5 in thorough; plus Hypothesis-generated blocks with init_progr_len <= 7; plus a family of "
        "blocks with store->load / load->store / store->store / hash dependences on symbolic addresses, with and without slack in "
        "the length bound, under fixed option sets covering both memory encodings with and without position bounds) x encoder "
        "option sets drawn from {term encoding int/stack_vars/uninterpreted_uf/uninterpreted_int} x empty x push-basic x "
        "pop-uninterpreted x {l_vars,direct} x order-bounds x order-conflicts x at-most x pushed-once x no-output-before-pop x "
        "direct-inequalities x criterion; the emitted .smt2 text is parsed by z3 (helper process) after a declared-once check, ALL "
        "models of its hard constraints projected on t_0..t_{b0-1} are enumerated with blocking clauses (cap 1500), each is decoded "
        "(own theta->id table; a sample through the tool's own model reader with a prepared solver output) and run by the abstract "
        "sequence checker E4 against the specification within init_progr_len / max_sk_sz, NOPs only trailing; "
        "non-trivial = instance with >= 2 models or >= 1 uninterpreted instruction; distinct by (specification, option set)")
ASSUME = ["z3 4.x/5.x Python API as model enumerator over the emitted text (OptiMathSAT itself is not present)",
          "sequence checker vf/seqcheck.py; commutativity from the specification's own flag",
          "instances whose model enumeration hits the cap are judged on the models seen (reported as non-exhaustive)"]


def culprit_opts(argv):
    flags = [a for a in argv if a in ("-push-basic", "-pop-uninterpreted", "-empty", "-order-bounds", "-order-conflicts", "-at-most", "-pushed-once",
                                      "-no-output-before-pop", "-direct-inequalities")]
    if "-term-encoding" in argv:
        flags.append("term=" + argv[argv.index("-term-encoding") + 1])
    if "-memory-encoding" in argv:
        flags.append("mem=" + argv[argv.index("-memory-encoding") + 1])
    return " ".join(flags) or "default"


def judge(rec, instrs, argv, stats):
    fails = []
    case = {"type": "instance", "blocks": [asm.instrs_to_plain(instrs)], "argv": list(argv)}
    lab = culprit_opts(argv)
    if "harness" in rec:
        stats.classes["tool-side call " + rec["harness"]] += 1
        return fails
    if "spec_error" in rec:
        stats.classes["spec-generation-raised (C10 territory)"] += 1
        return fails
    if "encode_error" in rec:
        stats.classes["encoder raised: " + rec["encode_error"].split(":")[0]] += 1
        fails.append(runner.Failure("encoder-raised", rec["encode_error"].split(":")[0] + " | " + _main_flag(argv),
                                    "[%s] generating the encoding of `%s` raised %s" % (lab, asm.instrs_to_plain(instrs), rec["encode_error"]), case))
        return fails
    if "skipped" in rec or "enum" not in rec:
        stats.classes["skipped: bound outside range"] += 1
        return fails
    S = rec["spec"]
    en = rec["enum"]
    stats.evaluations += 1
    if "error" in en or "parse_error" in en:
        fails.append(runner.Failure("text-not-wellformed", "parse | " + _main_flag(argv), "[%s] emitted text for `%s` cannot be loaded: %s" % (
            lab, asm.instrs_to_plain(instrs), en.get("parse_error") or en.get("error")), case))
        return fails
    wf = en.get("wellformed") or {"ok": True}
    if not wf["ok"]:
        fails.append(runner.Failure("text-not-wellformed", (wf["problems"][0].split(":")[0])[:40] + " | " + _main_flag(argv),
                                    "[%s] emitted text for `%s`: %s" % (lab, asm.instrs_to_plain(instrs), wf["problems"]), case))
    wo = rec.get("wellformed_oms")
    if wo and not wo["ok"] and not all("minimize" in p or "cost" in p for p in wo["problems"]):
        fails.append(runner.Failure("text-not-wellformed", "oms:" + (wo["problems"][0].split(":")[0])[:40], "[%s] OptiMathSAT-dialect text: %s" % (lab, wo["problems"]), case))
    models = en["models"]
    nontrivial = len(models) >= 2 or any(not u.get("push") for u in S["user_instrs"])
    if nontrivial:
        stats.nontrivial.add(runner.jhash([S["src_ws"], S["tgt_ws"], [(u["id"], u["inpt_sk"]) for u in S["user_instrs"]], S.get("dependencies"), lab]))
    stats.classes["models per instance: %s" % ("0" if not models else "1" if len(models) == 1 else "2-50" if len(models) <= 50 else "51+")] += 1
    stats.classes["option set " + lab] += 1
    stats.notes["models-enumerated"] += len(models)
    if not en["exhaustive"]:
        stats.classes["enumeration capped (non-exhaustive)"] += 1
    b0, bs = S["init_progr_len"], S["max_sk_sz"]
    for m in models:
        v = seqcheck.check(S, m["ids"], max_len=b0, max_height=bs, nops_trailing=True)
        if not v:
            why = v.reason
            cul = ("unknown-id" if "unknown id" in why else "nop-not-trailing" if "after a NOP" in why else "final-stack" if "final stack" in why else
                   "operands" if "applied to" in why else "ordering" if "ordering" in why else "store-count" if "performed" in why else
                   "underflow" if "underflow" in why else "bounds" if "exceeds" in why else "other")
            if "-push-basic" in argv:
                cul = "any"          # one root cause: the pushed value a_j is neither constrained consistently nor decoded
            fails.append(runner.Failure("model-not-realizing", cul + " | " + _main_flag(argv), "[%s] spec of `%s` (b0=%d, bs=%d): model t=%s decodes to %s: %s" % (
                lab, asm.instrs_to_plain(instrs), b0, bs, m["t"], m["ids"], why), dict(case, model=m["t"], a=m.get("a"))))
            break
    # the tool's own reader must decode the sampled models to the same ids
    td = rec.get("tool_decoded") or []
    for m, got in zip([m for m in models if "sexpr" in m], td):
        stats.classes["models decoded through the tool's reader"] += 1
        if got != m["ids"]:
            fails.append(runner.Failure("tool-reader-disagrees", ("raised" if isinstance(got, str) else "ids") + " | " + _main_flag(argv),
                                        "[%s] model t=%s: own decoding %s, tool's reader %s" % (lab, m["t"], m["ids"], got), case))
            break
    if nontrivial and len(stats.samples) < 6 and models:
        stats.sample({"block": asm.instrs_to_plain(instrs), "options": lab, "models": len(models), "example_model": models[0]["ids"]})
    return fails


def _main_flag(argv):
    for f in ("-push-basic", "-pop-uninterpreted", "-empty"):
        if f in argv:
            return f
    return "other"


def shard(blocks, n_random, sd, per_block_opts):
    hermetic.setup_repo()
    stats = runner.Stats()
    eng = smtcommon.Engine()
    rng = random.Random(sd)
    try:
        @seed(sd)
        @settings(max_examples=max(1, len(blocks) * per_block_opts + n_random), database=None, deadline=None, phases=(Phase.generate,),
                  suppress_health_check=list(HealthCheck), report_multiple_bugs=False)
        @given(st.integers(0, 10 ** 9), smtcommon.encoder_argv_strategy(),
               st.one_of(gen.body(max_len=5, profile=gen.ARITH_PROFILE, allow_split=False, max_need=3),
                         gen.body(max_len=6, profile=gen.MEM_PROFILE, allow_split=False, max_need=3)))
        def prop(k, argv, rnd_block):
            counter[0] += 1
            if counter[0] <= len(blocks) * per_block_opts:
                instrs = blocks[(counter[0] - 1) // per_block_opts]
                if isinstance(instrs, tuple):          # (block, fixed option set)
                    if (counter[0] - 1) % per_block_opts:
                        return
                    instrs, argv = instrs
            else:
                instrs = rnd_block
            for rec in eng.analyze(instrs, argv, want_oms=(k % 4 == 0)):
                for f in judge(rec, instrs, argv, stats):
                    stats.fail(f)
        counter = [0]
        prop()
    finally:
        eng.close()
    return stats


def replay_case(case, stats=None):
    stats = stats or runner.Stats()
    eng = smtcommon.Engine()
    out = []
    try:
        for text in case["blocks"]:
            instrs = asm.parse_plain(text)
            for argv in ([case["argv"]] if "argv" in case else [["-solver", "z3"], ["-solver", "z3", "-term-encoding", "int"]]):
                for rec in eng.analyze(instrs, argv, want_oms=True):
                    out += judge(rec, instrs, argv, stats)
    finally:
        eng.close()
    return out


def _dispatch(fn, a):
    return fn(*a)


def main(tier, seed_):
    t0 = time.time()
    hermetic.setup_repo()
    stats = runner.Stats()
    with pipeline.isolated():
        for path in runner.replay_files(ID):
            for f in replay_case(json.load(open(path))["case"], stats):
                stats.fail(f)
    if tier == "quick":
        from .c07 import slack_blocks
        rng = random.Random(seed_)
        deps = smtcommon.dependence_blocks()
        blocks = smtcommon.small_blocks(2) + rng.sample(smtcommon.small_blocks(3), 400) + slack_blocks() + rng.sample(deps, 200)
        per, nrand = 3, 160
    else:
        from .c07 import slack_blocks
        blocks = smtcommon.small_blocks(3) + slack_blocks()
        rng = random.Random(seed_)
        blocks += rng.sample(smtcommon.small_blocks(4), 3000) + smtcommon.dependence_blocks()
        per, nrand = 6, 3000
    jobs = [(shard, (ch, nrand // runner.NPROC, runner.shard_seed(seed_, i, "c06"), per)) for i, ch in enumerate(runner.chunks(blocks, runner.NPROC))]
    res = runner.run_shards(_dispatch, jobs, stall_s=900)
    stats.merge(runner.merge_stats(res))
    return runner.conclude(ID, tier, seed_, stats, RULE, ASSUME, t0, exhaustive=False,
                           extra_cov={"small_vocabulary_blocks": len(blocks), "vocabulary": [asm.instr_to_plain(i) for i in smtcommon.VOC]})
