"""C05 -- the built-in equivalence checkers never accept distinguishable blocks."""
import json
import random
import re
import time
from hypothesis import given, settings, seed, strategies as st, HealthCheck, Phase

from .. import evm, asm, hermetic, runner, pipeline, gen, options, states

ID = "C05"
RULE = ("blocks B from the generators and the corpus; B' by semantic mutation operators (operand swap of a non-commutative "
        "operation or of any two operands of an operation with >= 3 operands, signed/unsigned, shift-kind, MOD/SMOD, LT/GT, MSTORE/MSTORE8, ADD/SUB, AND/OR substitutions, constant +-1 / "
        "boundary, dropped / duplicated / swapped stores, DUP/SWAP index +-1, deleted instruction with compensating POP/PUSH); a pair "
        "enters the test ONLY if the reference interpreter finds a state that distinguishes B and B' (otherwise it is discarded and "
        "counted); then compare_asm_block_asm_format(B,B') must answer False; compare(B,B) must answer True for every generated "
        "and corpus block and for the sharing / memory templates of the rule catalogue (the whole catalogue in thorough); the Forves adapter's rendering is re-parsed by an own reader (one example per optimizable segment, each "
        "decoding to exactly that segment of each block) and the external checker may answer 'true' only for pairs without a "
        "distinguishing state; non-trivial = mutant with a concrete distinguishing state; distinct by (operator, block)")
ASSUME = ["reference interpreter vf/evm.py decides distinguishability on >= 60 states; undistinguished mutants are not judged",
          "Forves binary bin/forves-checker as shipped"]

SUBST = {"LT": ["SLT", "GT"], "GT": ["SGT", "LT"], "SLT": ["LT", "SGT"], "SGT": ["GT", "SLT"], "DIV": ["SDIV", "MOD"], "SDIV": ["DIV"],
         "MOD": ["SMOD", "DIV"], "SMOD": ["MOD"], "SHR": ["SAR", "SHL"], "SAR": ["SHR"], "SHL": ["SHR"], "ADD": ["SUB", "OR"], "SUB": ["ADD"],
         "AND": ["OR"], "OR": ["AND", "XOR"], "XOR": ["OR"], "MUL": ["ADD"], "EQ": ["LT"], "MSTORE": ["MSTORE8"], "MSTORE8": ["MSTORE"],
         "ISZERO": ["NOT"], "NOT": ["ISZERO"], "SLOAD": ["MLOAD"], "MLOAD": ["SLOAD"], "ADDMOD": ["MULMOD"], "MULMOD": ["ADDMOD"],
         "BYTE": ["SHR"], "SIGNEXTEND": ["BYTE"], "EXP": ["MUL"], "CALLER": ["ORIGIN"], "ORIGIN": ["CALLER"], "TIMESTAMP": ["NUMBER"],
         "SSTORE": ["MSTORE"], "BALANCE": ["EXTCODESIZE"], "CALL": ["CALLCODE"], "CALLCODE": ["CALL"], "STATICCALL": ["DELEGATECALL"],
         "DELEGATECALL": ["STATICCALL"], "CALLDATACOPY": ["CODECOPY", "RETURNDATACOPY"], "CODECOPY": ["CALLDATACOPY"],
         "RETURNDATACOPY": ["CODECOPY"], "LOG1": ["CALLDATACOPY"], "LOG2": ["EXTCODECOPY"], "EXTCODECOPY": ["LOG2"], "CREATE": ["LOG1"]}
NONCOMM = {"SUB", "DIV", "SDIV", "MOD", "SMOD", "EXP", "LT", "GT", "SLT", "SGT", "SHL", "SHR", "SAR", "BYTE", "SIGNEXTEND", "MSTORE", "MSTORE8",
           "SSTORE", "KECCAK256"}
STORES = {"MSTORE", "MSTORE8", "SSTORE"}


def mutants(instrs, rng, k=3):
    """list of (operator, position, mutated instrs); only the optimizable body is touched"""
    idxs = [i for i, (n, _) in enumerate(instrs) if n not in asm.BLOCK_BEGIN and n not in asm.BLOCK_END and (n not in asm.DEFAULT_SPLIT or n in SUBST)]
    out = []
    tries = 0
    while len(out) < k and tries < 12 and idxs:
        tries += 1
        i = rng.choice(idxs)
        name, arg = instrs[i]
        ops = []
        if name in NONCOMM or (name in evm.ARITY and evm.ARITY[name][0] >= 3):
            ops.append("swap-operands")
        if name in SUBST:
            ops.append("subst")
        if name == "PUSH":
            ops.append("const")
        if name in STORES:
            ops += ["drop-store", "dup-store"]
            if any(instrs[j][0] in STORES for j in idxs if j > i):
                ops.append("swap-stores")
        if name.startswith("DUP") or name.startswith("SWAP"):
            ops.append("index")
        if name in evm.PURE:
            ops.append("delete")
        if i + 1 in idxs:
            ops.append("transpose")
        if name in STORES:
            ops.append("reorder-stores")
        if not ops:
            continue
        op = rng.choice(ops)
        m = list(instrs)
        if op == "swap-operands":
            # exchange the first operand with another one (any of them for operations of three and more operands)
            m[i:i] = [("SWAP%d" % rng.randrange(1, evm.ARITY[name][0]), None)]
        elif op == "subst":
            m[i] = (rng.choice(SUBST[name]), None)
        elif op == "const":
            c = arg
            m[i] = ("PUSH", rng.choice([(c + 1) % evm.M256, (c - 1) % evm.M256, c ^ 0x20, c ^ 1, 0, evm.M256 - 1]))
            if m[i] == instrs[i]:
                continue
        elif op == "drop-store":
            m[i] = ("POP", None)
            m[i + 1:i + 1] = [("POP", None)]
        elif op == "dup-store":
            m[i:i] = [("DUP2", None), ("DUP2", None), ("SWAP1", None), ("PUSH", 1), ("ADD", None), ("SWAP1", None), (name, None)]
        elif op == "swap-stores":
            j = min(j for j in idxs if j > i and instrs[j][0] in STORES)
            # only meaningful when both operand pairs are available at i: duplicate second store's effect is not expressible
            # generically, so emulate a reorder by changing the first store's address to collide later: a+1
            m[i:i] = [("PUSH", 1), ("ADD", None)]
        elif op == "index":
            base = "DUP" if name.startswith("DUP") else "SWAP"
            kk = int(name[len(base):])
            nk = kk + rng.choice([-1, 1])
            if not 1 <= nk <= 16:
                continue
            m[i] = ("%s%d" % (base, nk), None)
        elif op == "transpose":
            m[i], m[i + 1] = m[i + 1], m[i]
            if m == list(instrs):
                continue
        elif op == "reorder-stores":
            # exchange this store (with the two instructions that prepare its operands, if it has them) with a later one;
            # adjacent bare stores get their operand pairs exchanged on the stack instead
            later = [j for j in idxs if j > i and instrs[j][0] in STORES]
            if not later:
                continue
            j = rng.choice(later)
            if j == i + 1:
                m[i:i] = [("SWAP2", None), ("SWAP1", None), ("SWAP3", None), ("SWAP1", None)]
            elif i >= 2 and j - 2 > i and all(instrs[x][0].startswith(("PUSH", "DUP")) and instrs[x][0] not in asm.VALUE_KINDS for x in (i - 2, i - 1, j - 2, j - 1)):
                m[i - 2:i + 1], m[j - 2:j + 1] = instrs[j - 2:j + 1], instrs[i - 2:i + 1]
            else:
                m[i], m[j] = m[j], m[i]
                if m == list(instrs):
                    continue
        elif op == "delete":
            a, p = evm.ARITY[name]
            m[i:i + 1] = [("POP", None)] * a + [("PUSH", rng.choice([0, 1, 7]))]
        out.append((op + ":" + name, i, m))
    return out


def compare_in_tool(items_a, items_b, argv):
    """(inside the tool's process) -> (eq, reason) or ('raised', ...)"""
    import gasol_asm
    params = hermetic.make_params(["in.json"] + list(argv))
    hermetic.prepare_globals(params)
    a = hermetic.build_blocks(items_a)
    b = hermetic.build_blocks(items_b)
    if len(a) != 1 or len(b) != 1:
        return ("skip", "not a single block")
    try:
        eq, reason = gasol_asm.compare_asm_block_asm_format(a[0], b[0], params)
    except BaseException as e:  # noqa
        return ("raised", "%s: %s" % (type(e).__name__, str(e)[:200]))
    return (bool(eq), str(reason)[:300])


def forves_render(text_a, text_b):
    from verification.forves_verification import forves_format
    import global_params.constants as constants
    return forves_format(text_a, text_b)


def forves_verdict(text_a, text_b, crit):
    from verification.forves_verification import compare_forves
    try:
        return compare_forves(text_a, text_b, crit, True)
    except BaseException as e:  # noqa
        return "raised %s: %s" % (type(e).__name__, str(e)[:100])


def distinguishing_state(a, b, rng, n=60):
    cmp = pipeline.compare_blocks(a, b, rng, n_states=n, use_grid=False)
    if cmp["status"] in ("differ", "underflow"):
        # a mutant that only leaves the modelled memory domain (an out-of-gas situation in reality) is outside
        # the equivalence relation (gas is excluded), so it is not used as a distinguishing witness
        if "memory domain" in str(cmp.get("reason")):
            return None
        return cmp
    return None


def check_reflexive(instrs, argv, stats, label):
    items = asm.instrs_to_items(instrs)
    r = pipeline.gasol(compare_in_tool, items, items, list(argv), cpu=30)
    stats.evaluations += 1
    if r.kind != "ok":
        stats.classes["child-" + r.kind] += 1
        return []
    eq, reason = r.value
    if eq == "skip":
        return []
    stats.classes["reflexive comparisons"] += 1
    case = {"type": "reflexive", "blocks": [asm.instrs_to_plain(instrs)], "argv": list(argv)}
    if eq == "raised":
        return [runner.Failure("checker-raised", reason.split(":")[0], "compare(B,B) raised %s for `%s`" % (reason, asm.instrs_to_plain(instrs)), case)]
    if eq is not True:
        cul = re.sub(r"s\(\d+\)|\d+", "#", reason)[:50]
        if "could not be performed" in reason:
            # root cause = innermost frame of the analysis failure
            rs = pipeline.get_specs(instrs, argv, cpu=30)
            if rs.kind == "ok":
                for b in rs.value:
                    if "error" in b:
                        fr = b["error"][2][-1] if b["error"][2] else ("?", 0, "?")
                        cul = "analysis-raised %s@%s:%s" % (b["error"][0], str(fr[0]).replace(hermetic.REPO + "/", ""), fr[2])
        return [runner.Failure("not-reflexive", cul, "[%s] compare(B,B) = False for `%s`: %s" % (options.label(argv), asm.instrs_to_plain(instrs), reason[:200]), case)]
    return []


def check_pair(instrs, m, op, pos, argv, rng, stats):
    """one (block, distinguishable variant) pair through the tool's checker"""
    stats.evaluations += 1
    try:
        evm.need_and_delta(m)
    except KeyError:
        return []
    d = distinguishing_state(instrs, m, rng)
    if d is None:
        stats.classes["mutant without distinguishing state (discarded)"] += 1
        return []
    stats.classes["mutant " + op.split(":")[0]] += 1
    stats.nontrivial.add(runner.jhash([op, asm.instrs_to_plain(instrs), pos]))
    r = pipeline.gasol(compare_in_tool, asm.instrs_to_items(instrs), asm.instrs_to_items(m), list(argv), cpu=30)
    if r.kind != "ok":
        stats.classes["child-" + r.kind] += 1
        return []
    eq, reason = r.value
    case = {"type": "pair", "blocks": [asm.instrs_to_plain(instrs), asm.instrs_to_plain(m)], "argv": list(argv), "operator": op,
            "state": d.get("state"), "why_distinguishable": d.get("reason")}
    if eq is True:
        return [runner.Failure("accepted-distinguishable", op, "[%s] checker says equal for `%s` vs mutant (%s) `%s`; distinguished by %s" % (
            options.label(argv), asm.instrs_to_plain(instrs), op, asm.instrs_to_plain(m), d.get("reason")), case)]
    if eq == "raised":
        return [runner.Failure("checker-raised", reason.split(":")[0], "compare raised %s on `%s` vs `%s`" % (reason, asm.instrs_to_plain(instrs), asm.instrs_to_plain(m)), case)]
    if len(stats.samples) < 6:
        stats.sample({"block": asm.instrs_to_plain(instrs), "mutant": asm.instrs_to_plain(m), "operator": op, "distinguished_by": d.get("reason"),
                      "checker_reason": reason[:100]})
    return []


def check_mutants(instrs, argv, rng, stats, label):
    fails = []
    for op, pos, m in mutants(instrs, rng):
        fails += check_pair(instrs, m, op, pos, argv, rng, stats)
    return fails


def systematic_pairs():
    """every operation of the instruction set in every operand permutation and against every other operation of the
    same shape, bare and as an operand of something else: (operator label, block, variant)"""
    out = []
    I = lambda *names: [(n, None) for n in names]
    ctx = [("bare", [], []), ("stored", [], [("PUSH", 0), ("SSTORE", None)]), ("nested", [], I("CALLER", "SUB", "ISZERO")),
           ("dup", I("DUP3", "DUP3", "DUP3"), [])]
    names = sorted(n for n in evm.ARITY if not n.startswith(("DUP", "SWAP", "PUSH")) and n not in evm.TERMINALS and n not in ("POP", "JUMPDEST", "tag"))
    for n in names:
        a, p = evm.ARITY[n]
        for k in range(1, a):
            for cname, pre, post in ctx:
                if (post and p != 1) or (cname == "dup" and a != 3):
                    continue
                out.append(("permute:%s" % n, pre + I(n) + post, pre + I("SWAP%d" % k, n) + post))
        if a >= 3:
            # rotation of the first three operands
            out.append(("permute:%s" % n, I(n), I("SWAP1", "SWAP2", n)))
    for n1 in names:
        for n2 in names:
            if n1 == n2 or evm.ARITY[n1] != evm.ARITY[n2]:
                continue
            if evm.ARITY[n1][0] == 0 and n1 > n2:
                continue
            if (n1 in evm.SPLIT) != (n2 in evm.SPLIT):
                continue
            out.append(("subst:%s" % n1, I(n1), I(n2)))
            if evm.ARITY[n1][1] == 1 and evm.ARITY[n1][0] >= 1:
                out.append(("subst:%s" % n1, I(n1, "CALLER", "SUB"), I(n2, "CALLER", "SUB")))
    return out


def shard_reflexive(temps, sd):
    """compare(B,B) over the rule catalogue's sharing and memory templates (blocks on which rules fire)"""
    hermetic.setup_repo()
    stats = runner.Stats()
    rng = random.Random(sd)
    for label, instrs in temps:
        argv = rng.choice([["-greedy"], ["-storage", "-greedy"], ["-partition", "-greedy"]])
        runner.journal({"type": "reflexive", "blocks": [asm.instrs_to_plain(instrs)], "argv": argv})
        fs = check_reflexive(instrs, argv, stats, "catalogue")
        if fs:
            for f in pipeline.confirmed(fs, lambda: _redo(fs), stats):
                stats.fail(f)
    return stats


def shard_systematic(pairs, sd):
    hermetic.setup_repo()
    stats = runner.Stats()
    rng = random.Random(sd)
    for op, a, b in pairs:
        for argv in (["-greedy"], ["-storage", "-greedy"]):
            runner.journal({"type": "pair", "blocks": [asm.instrs_to_plain(a), asm.instrs_to_plain(b)], "argv": argv})
            fs = check_pair(a, b, op, 0, argv, rng, stats)
            stats.classes["systematic pairs"] += 1
            if fs:
                for f in pipeline.confirmed(fs, lambda: _redo(fs), stats):
                    stats.fail(f)
    return stats


# ------------------------------------------------------------------ Forves adapter
def decode_forves_seq(line):
    """own reader of one rendered sequence -> canonical instruction list"""
    toks = line.split()
    out = []
    i = 0
    ids = {0: "PUSHDEPLOYADDRESS", 1: "PUSHSIZE", 2: "PUSHLIB", 3: "PUSHIMMUTABLE", 4: "PUSH data", 5: "PUSH [tag]", 6: "PUSH [$]", 7: "PUSH #[$]"}
    while i < len(toks):
        t = toks[i]
        if re.fullmatch(r"PUSH\d+", t):
            out.append(("PUSH", int(toks[i + 1], 16)))
            i += 2
        elif t == "METAPUSH":
            kind = ids[int(toks[i + 1])]
            out.append((kind, toks[i + 2]))
            i += 3
        else:
            out.append((t, None))
            i += 1
    return out


def canon_seg(seg):
    out = []
    for n, a in seg:
        if n in ("PUSHDEPLOYADDRESS", "PUSHSIZE"):
            out.append((n, None))
        elif n in asm.VALUE_KINDS:
            v = a[2:] if isinstance(a, str) and a.lower().startswith("0x") else a
            out.append((n, evm.pseudo_key(n, v) if n != "PUSHLIB" else "lib"))
        elif n == "SHA3":
            out.append(("KECCAK256", None))
        else:
            out.append((n, a))
    return out


def segments(instrs):
    segs, cur = [], []
    for ins in instrs:
        if ins[0] in asm.BLOCK_BEGIN or ins[0] in asm.BLOCK_END or ins[0] in asm.DEFAULT_SPLIT:
            if cur:
                segs.append(cur)
            cur = []
        else:
            cur.append(ins)
    if cur:
        segs.append(cur)
    return segs


def check_forves_render(a, b, stats, label):
    """rendering faithfulness for the pair (a, b) with the same segment structure"""
    ta, tb = asm.instrs_to_plain([i for i in a if i[0] != "tag"]), asm.instrs_to_plain([i for i in b if i[0] != "tag"])
    r = pipeline.gasol(forves_render, ta, tb, cpu=20)
    stats.evaluations += 1
    if r.kind != "ok":
        return []
    text = r.value
    sa, sb = segments(a), segments(b)
    case = {"type": "forves-render", "blocks": [asm.instrs_to_plain(a), asm.instrs_to_plain(b)]}
    if len(sa) >= 2:
        stats.nontrivial.add(runner.jhash(["render", ta, tb]))
    stats.classes["forves renderings with %s segments" % ("1" if len(sa) <= 1 else "2+")] += 1
    def skel(x):
        out = []
        for i in x:
            if i[0] in asm.BLOCK_BEGIN or i[0] in asm.BLOCK_END or i[0] in asm.DEFAULT_SPLIT:
                out.append(i)
            elif not out or out[-1] != "segment":
                out.append("segment")
        return out
    if skel(a) != skel(b):
        return []           # the adapter only renders pairs that agree outside the optimizable segments
    if text is None:
        if any(n in ("MSIZE", "PC") for n, _ in a + b):
            return []
        return [runner.Failure("forves-render-failed", "none", "forves_format returned nothing for `%s`" % ta[:200], case)]
    if len(sa) != len(sb):
        return []
    ex = [e for e in text.split("#") if e.strip()]
    if len(ex) != len(sa):
        return [runner.Failure("forves-render-unfaithful", "example-count", "%d examples rendered for %d optimizable segments of `%s`" % (len(ex), len(sa), ta[:200]), case)]
    for k, e in enumerate(ex):
        lines = [l for l in e.strip().split("\n")]
        if len(lines) != 3 or not lines[2].strip().isdigit():
            return [runner.Failure("forves-render-unfaithful", "layout", "example %d is not <optimized, original, stack size>: %r" % (k, e[:200]), case)]
        try:
            dopt, dorig = decode_forves_seq(lines[0]), decode_forves_seq(lines[1])
        except Exception as x:
            return [runner.Failure("forves-render-unfaithful", "undecodable", "example %d cannot be decoded: %s" % (k, x), case)]
        if canon_seg(dorig) != canon_seg(sa[k]) or canon_seg(dopt) != canon_seg(sb[k]):
            return [runner.Failure("forves-render-unfaithful", "segment-content", "example %d of `%s` renders %s / %s instead of segment %s / %s" % (
                k, ta[:160], lines[1][:160], lines[0][:160], asm.instrs_to_plain(sa[k])[:160], asm.instrs_to_plain(sb[k])[:160]), case)]
    return []


def check_forves_verdict(a, b, rng, stats, label):
    d = distinguishing_state(a, b, rng, n=40)
    if d is None:
        return []
    if "underflow" in str(d.get("reason")):
        return []        # the rendering fixes a stack of 500 words: a deeper stack need is outside what the adapter states
    ta, tb = asm.instrs_to_plain([i for i in a if i[0] != "tag"]), asm.instrs_to_plain([i for i in b if i[0] != "tag"])
    r = pipeline.gasol(forves_verdict, ta, tb, "gas", cpu=60)
    stats.evaluations += 1
    stats.classes["forves verdicts on distinguishable pairs"] += 1
    if r.kind != "ok":
        return []
    if r.value == "true":
        return [runner.Failure("forves-accepted-distinguishable", "verdict", "Forves adapter says true for `%s` vs `%s`; distinguished by %s" % (ta[:200], tb[:200], d.get("reason")),
                               {"type": "forves-pair", "blocks": [asm.instrs_to_plain(a), asm.instrs_to_plain(b)], "state": d.get("state")})]
    stats.classes["forves answer " + str(r.value)[:20]] += 1
    return []


FORVES_OK = dict(gen.DEFAULT_PROFILE, split=6, pseudo=3, env1=0)


def shard_random(n, sd, n_forves):
    hermetic.setup_repo()
    stats = runner.Stats()
    budget = [n_forves]

    @seed(sd)
    @settings(max_examples=n, database=None, deadline=None, phases=(Phase.generate,),
              suppress_health_check=list(HealthCheck), report_multiple_bugs=False)
    @given(st.one_of(gen.block(max_len=14), gen.block(max_len=16, profile=gen.MEM_PROFILE), gen.block(max_len=12, profile=gen.ARITH_PROFILE),
                     gen.block(max_len=22, profile=gen.SPLIT_PROFILE), gen.corpus_block(), gen.two_store_block()),
           st.builds(lambda a, b: a + b + ["-greedy"], st.sampled_from(options.SPLIT), st.sampled_from(options.RULES)), st.integers(0, 2 ** 32))
    def prop(instrs, argv, s):
        rng = random.Random(s)
        fs = check_reflexive(instrs, argv, stats, "random")
        fs += check_mutants(instrs, argv, rng, stats, "random")
        ms = mutants(instrs, rng, k=1)
        if ms:
            fs += check_forves_render(instrs, ms[0][2], stats, "random")
            if budget[0] > 0 and not any(x[0] in ("MSIZE", "PC") for x in instrs):
                budget[0] -= 1
                fs += check_forves_verdict(instrs, ms[0][2], rng, stats, "random")
        else:
            fs += check_forves_render(instrs, instrs, stats, "random")
        if fs:
            for f in pipeline.confirmed(fs, lambda: _redo(fs), stats):
                stats.fail(f)
    prop()
    return stats


def _redo(fs):
    out, seen = [], set()
    for f in fs:
        k = json.dumps(f.case, sort_keys=True, default=str)
        if k not in seen:
            seen.add(k)
            out += replay_case(f.case)
    return out


def replay_case(case, stats=None):
    stats = stats or runner.Stats()
    t = case["type"]
    blocks = [asm.parse_plain(x) for x in case["blocks"]]
    argv = case.get("argv", ["-greedy"])
    if t == "reflexive":
        out = []
        for b in blocks:
            out += check_reflexive(b, argv, stats, "replay")
        return out
    if t == "pair":
        a, b = blocks
        d = distinguishing_state(a, b, random.Random(1), n=120)
        if d is None:
            return []
        r = pipeline.gasol(compare_in_tool, asm.instrs_to_items(a), asm.instrs_to_items(b), list(argv), cpu=30)
        stats.evaluations += 1
        if r.kind == "ok" and r.value[0] is True:
            return [runner.Failure("accepted-distinguishable", case.get("operator", "?"), "checker says equal for `%s` vs `%s`; distinguished by %s" % (
                case["blocks"][0], case["blocks"][1], d.get("reason")), case)]
        if r.kind == "ok" and r.value[0] == "raised":
            return [runner.Failure("checker-raised", r.value[1].split(":")[0], "compare raised %s" % r.value[1], case)]
        return []
    if t == "forves-render":
        return check_forves_render(blocks[0], blocks[1], stats, "replay")
    if t == "forves-pair":
        return check_forves_verdict(blocks[0], blocks[1], random.Random(1), stats, "replay")
    return []


def shrink(f):
    if f.case["type"] != "reflexive":
        return f
    from ..shrink import shrink_block
    instrs = asm.parse_plain(f.case["blocks"][0])
    argv = f.case["argv"]

    def still(c):
        for x in check_reflexive(c, argv, runner.Stats(), "shrink"):
            if x.bucket == f.bucket:
                return x
        return None
    return shrink_block(instrs, still, budget_s=15) or f


def _dispatch(fn, a):
    return fn(*a)


def main(tier, seed_):
    t0 = time.time()
    hermetic.setup_repo()
    stats = runner.Stats()
    with pipeline.isolated():
        for path in runner.replay_files(ID):
            for f in replay_case(json.load(open(path))["case"], stats):
                stats.fail(f)
    n, nf = (2400, 10) if tier == "quick" else (120000, 300)
    per = max(1, n // runner.NPROC)
    res = runner.run_shards(_dispatch, [(shard_random, (per, runner.shard_seed(seed_, i, "c05"), nf)) for i in range(runner.NPROC)])
    stats.merge(runner.merge_stats(res))
    res = runner.run_shards(_dispatch, [(shard_systematic, (ch, runner.shard_seed(seed_, i, "c05s"))) for i, ch in
                                        enumerate(runner.chunks(systematic_pairs(), runner.NPROC)) if ch])
    stats.merge(runner.merge_stats(res))
    from .. import catalogue
    temps = catalogue.sharing_templates() + catalogue.memory_templates("quick")
    if tier != "quick":
        temps = catalogue.templates("quick")
    res = runner.run_shards(_dispatch, [(shard_reflexive, (ch, runner.shard_seed(seed_, i, "c05r"))) for i, ch in
                                        enumerate(runner.chunks(temps, runner.NPROC)) if ch])
    stats.merge(runner.merge_stats(res))
    return runner.conclude(ID, tier, seed_, stats, RULE, ASSUME, t0, exhaustive=False, shrink=shrink)
