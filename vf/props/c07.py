"""C07 -- the Max-SMT problem keeps an optimal program and prices it correctly."""
import json
import random
import time
from hypothesis import given, settings, seed, strategies as st, HealthCheck, Phase

from .. import evm, asm, hermetic, runner, pipeline, gen, seqcheck, options, brute, cost
from . import smtcommon
from .c06 import culprit_opts

ID = "C07"
RULE = ("the instances of C06 (bounded-exhaustive small-vocabulary blocks + generated ones) x criteria {gas,size,length} x "
        "{grouped, direct} soft encodings x pruning/bounds option sets (order-bounds, order-conflicts, at-most, pushed-once, "
        "no-output-before-pop, l_vars/direct memory encoding); with R = all realizing sequences within init_progr_len / max_sk_sz "
        "found by the brute-force enumerator E5 and cost_c from the independent table E9: (1) R non-empty => the hard constraints are "
        "satisfiable; (2) soft(M) - cost_c(decode(M)) is the same for all enumerated models of an instance; (3) the minimum of "
        "cost_c over the enumerated models equals the minimum over R; (4) that optimum is the same under every pruning/bounds option "
        "set for the same specification and criterion; non-trivial = instance with >= 2 models of >= 2 distinct costs; "
        "distinct by (specification, option set)")
ASSUME = ["z3 Python API enumerates the models of the emitted hard constraints; soft constraints are evaluated under each model",
          "E5 (vf/brute.py) is exhaustive within its node budget, otherwise the instance is counted as inconclusive",
          "cost_c(sequence) = sum of the independent per-instruction figures (static gas, bytes, 1)"]
PRUNE_FLAGS = [[], ["-order-bounds"], ["-order-conflicts"], ["-at-most"], ["-pushed-once"], ["-no-output-before-pop"], ["-memory-encoding", "l_vars"],
               ["-order-bounds", "-order-conflicts", "-no-output-before-pop"], ["-pop-uninterpreted"], ["-term-encoding", "int"],
               ["-term-encoding", "stack_vars"], ["-empty"]]
SOFT = [[], ["-direct-inequalities"]]


def crit_of(argv):
    return "size" if "-size" in argv else "length" if "-length" in argv else "gas"


def judge(rec, instrs, argv, stats, optimum_table):
    fails = []
    if "enum" not in rec or "models" not in rec.get("enum", {}):
        return fails
    S = rec["spec"]
    en = rec["enum"]
    crit = crit_of(argv)
    push0 = "-push0" not in argv
    lab = culprit_opts(argv) + " " + crit
    case = {"type": "instance", "blocks": [asm.instrs_to_plain(instrs)], "argv": list(argv)}
    stats.evaluations += 1
    b0, bs = S["init_progr_len"], S["max_sk_sz"]
    cf = smtcommon.id_cost(S, crit, push0)
    models = [m for m in en["models"] if seqcheck.check(S, m["ids"], max_len=b0, max_height=bs)]
    costs = [sum(cf(i) for i in m["ids"]) for m in models]
    if len(set(costs)) >= 2:
        stats.nontrivial.add(runner.jhash([S["src_ws"], S["tgt_ws"], [(u["id"], u["inpt_sk"]) for u in S["user_instrs"]], lab]))
        stats.classes[">= 2 models with >= 2 distinct costs"] += 1
    # (2) soft - cost constant
    diffs = set(m["soft"] - c for m, c in zip(models, costs))
    if len(diffs) > 1:
        i0 = 0
        i1 = next(i for i in range(len(models)) if models[i]["soft"] - costs[i] != models[0]["soft"] - costs[0])
        which = "|".join(sorted(set(models[i0]["ids"]) ^ set(models[i1]["ids"])))[:60]
        cul = crit + ":" + _kinds(S, models[i0]["ids"], models[i1]["ids"])
        if crit == "size" and any(cf(u["id"]) > 5 for u in S["user_instrs"]):
            cul = "size:weights-capped-at-5"
        fails.append(runner.Failure("soft-not-affine-in-cost", cul,
                                    "[%s] spec of `%s`: model %s has soft=%d cost=%d, model %s has soft=%d cost=%d" % (
                                        lab, asm.instrs_to_plain(instrs), models[i0]["ids"], models[i0]["soft"], costs[i0], models[i1]["ids"], models[i1]["soft"], costs[i1]),
                                    case))
    # (1)+(3) against the brute-force enumerator
    e5 = None
    if b0 <= 6 and len(S["user_instrs"]) <= 8:
        try:
            e5 = brute.Search(S, b0, bs, node_budget=120000, cost=cf).min_cost()
        except (brute.Budget, RecursionError):
            e5 = None
    if e5 is None:
        stats.classes["E5 inconclusive (budget)"] += 1
        stats.inconclusive += 1
    else:
        c5, seq5 = e5
        if c5 is not None and not en["models"] and en.get("status") == "unsat":
            fails.append(runner.Failure("realizable-but-unsat", _main(argv), "[%s] spec of `%s` (b0=%d, bs=%d): %s realizes it but the hard constraints are unsatisfiable" % (
                lab, asm.instrs_to_plain(instrs), b0, bs, seq5), case))
        elif c5 is not None and models and en["exhaustive"]:
            if min(costs) != c5:
                kind = "optimum-lost" if min(costs) > c5 else "cheaper-than-possible"
                fails.append(runner.Failure(kind, _main(argv) + " " + crit, "[%s] spec of `%s` (b0=%d, bs=%d): cheapest model costs %d (%s) but %s costs %d" % (
                    lab, asm.instrs_to_plain(instrs), b0, bs, min(costs), models[costs.index(min(costs))]["ids"], seq5, c5), case))
            else:
                stats.classes["optimum confirmed by E5"] += 1
        elif c5 is None and models:
            stats.classes["models exist but E5 finds no sequence (C06 territory)"] += 1
    # (4) invariance across option sets: the optimum per (spec, criterion) must not depend on pruning flags
    if models and en["exhaustive"]:
        key = runner.jhash([S["src_ws"], S["tgt_ws"], [(u["disasm"], u["inpt_sk"], u.get("outpt_sk"), u.get("value")) for u in S["user_instrs"]], S.get("dependencies"), b0, bs, crit])
        prev = optimum_table.get(key)
        if prev is None:
            optimum_table[key] = (min(costs), lab, models[costs.index(min(costs))]["ids"])
        elif prev[0] != min(costs):
            fails.append(runner.Failure("optimum-depends-on-options", _main(argv) + " vs " + prev[1].split(" ")[0], "spec of `%s` (%s): optimum %d under [%s] (%s) but %d under [%s] (%s)" % (
                asm.instrs_to_plain(instrs), crit, min(costs), lab, models[costs.index(min(costs))]["ids"], prev[0], prev[1], prev[2]), case))
    if len(set(costs)) >= 2 and len(stats.samples) < 6:
        stats.sample({"block": asm.instrs_to_plain(instrs), "options": lab, "models": len(models), "min_cost": min(costs), "max_cost": max(costs),
                      "soft_minus_cost": sorted(diffs)[:3]})
    return fails


def _kinds(S, a, b):
    by = {u["id"]: u["disasm"] for u in S["user_instrs"]}
    d = sorted(set(by.get(i, i.rstrip("0123456789")) for i in set(a) ^ set(b)))
    return "/".join(d)[:50]


def _main(argv):
    fl = [a for a in argv if a in ("-order-bounds", "-order-conflicts", "-at-most", "-pushed-once", "-no-output-before-pop", "-pop-uninterpreted", "-empty", "-direct-inequalities")]
    if "-memory-encoding" in argv:
        fl.append("l_vars")
    if "-term-encoding" in argv:
        fl.append(argv[argv.index("-term-encoding") + 1])
    return "+".join(fl) or "default"


def shard(blocks, n_random, sd, n_opts):
    hermetic.setup_repo()
    stats = runner.Stats()
    eng = smtcommon.Engine()
    rng = random.Random(sd)
    table = {}
    try:
        def run_block(instrs, crit):
            base = ["-solver", "z3"] + crit
            sets = [base] + [base + rng.choice(PRUNE_FLAGS) + rng.choice(SOFT) for _ in range(n_opts)]
            for argv in sets:
                for rec in eng.analyze(instrs, argv, cap=3000, tool_decode=0):
                    for f in judge(rec, instrs, argv, stats, table):
                        stats.fail(f)
        for i, instrs in enumerate(blocks):
            run_block(instrs, options.CRIT[i % 3])

        @seed(sd)
        @settings(max_examples=max(1, n_random), database=None, deadline=None, phases=(Phase.generate,),
                  suppress_health_check=list(HealthCheck), report_multiple_bugs=False)
        @given(st.one_of(gen.body(max_len=5, profile=gen.ARITH_PROFILE, allow_split=False, max_need=3),
                         gen.body(max_len=6, profile=gen.MEM_PROFILE, allow_split=False, max_need=3),
                         gen.body(max_len=5, allow_split=False, max_need=3)), st.sampled_from(options.CRIT))
        def prop(instrs, crit):
            run_block(instrs, crit)
        if n_random:
            prop()
    finally:
        eng.close()
    return stats


def replay_case(case, stats=None):
    stats = stats or runner.Stats()
    eng = smtcommon.Engine()
    out = []
    table = {}
    try:
        for text in case["blocks"]:
            instrs = asm.parse_plain(text)
            argvs = [case["argv"]] if "argv" in case else [["-solver", "z3"] + c + p for c in options.CRIT for p in PRUNE_FLAGS[:8]]
            for argv in argvs:
                for rec in eng.analyze(instrs, argv, cap=3000, tool_decode=0):
                    out += judge(rec, instrs, argv, stats, table)
    finally:
        eng.close()
    return out


def slack_blocks():
    """blocks whose specification admits several realizing programs of different cost inside the bound"""
    out = []
    P = lambda c: ("PUSH", c)
    I = lambda n: (n, None)
    for c in (0, 1, 0x100, 2 ** 32, 2 ** 255, 2 ** 256 - 1):
        out += [[P(c), P(c)], [P(c), I("DUP1")], [P(c), P(c), I("ADD")], [P(c), I("DUP1"), I("ADD")], [P(c), P(c), I("MSTORE")],
                [P(c), I("DUP1"), I("SWAP1")], [P(c), P(1), P(c)], [P(c), I("SWAP1"), P(c)], [P(c), I("POP")], [P(c), P(c), I("POP")],
                [I("DUP1"), P(c), I("SWAP1"), I("POP")], [P(c), I("CALLER"), P(c), I("ADD")]]
    out += [[I("SWAP1"), I("SWAP1")], [I("DUP1"), I("POP")], [I("DUP2"), I("DUP2"), I("ADD"), I("POP")], [I("SWAP2"), I("SWAP1"), I("SWAP2")],
            [I("CALLER"), I("CALLER")], [I("CALLER"), I("DUP1")], [I("DUP1"), I("DUP1"), I("ADD")], [I("DUP1"), I("SLOAD"), I("SWAP1"), I("SLOAD")],
            [I("DUP1"), I("MLOAD"), I("SWAP1"), I("MLOAD"), I("ADD")], [I("SWAP1"), I("DUP2"), I("SWAP1"), I("POP")],
            [I("DUP2"), I("SWAP1"), I("POP"), I("SWAP1"), I("POP")], [I("CALLER"), I("POP"), I("CALLER")], [I("DUP1"), I("ISZERO"), I("SWAP1"), I("ISZERO")],
            [I("DUP3"), I("DUP3"), I("DUP3")], [I("SWAP1"), I("POP"), I("SWAP1"), I("POP")], [I("DUP1"), I("SWAP2"), I("SWAP1"), I("POP")]]
    return out


def _dispatch(fn, a):
    return fn(*a)


def main(tier, seed_):
    t0 = time.time()
    hermetic.setup_repo()
    stats = runner.Stats()
    with pipeline.isolated():
        for path in runner.replay_files(ID):
            for f in replay_case(json.load(open(path))["case"], stats):
                stats.fail(f)
    rng = random.Random(seed_)
    if tier == "quick":
        blocks = slack_blocks() + rng.sample(smtcommon.small_blocks(2), 80) + rng.sample(smtcommon.small_blocks(3), 120)
        nrand, nopts = 64, 2
    else:
        blocks = slack_blocks() + smtcommon.small_blocks(2) + rng.sample(smtcommon.small_blocks(3), 2500) + rng.sample(smtcommon.small_blocks(4), 1500)
        nrand, nopts = 3000, 5
    jobs = [(shard, (ch, nrand // runner.NPROC, runner.shard_seed(seed_, i, "c07"), nopts)) for i, ch in enumerate(runner.chunks(blocks, runner.NPROC))]
    res = runner.run_shards(_dispatch, jobs, stall_s=900)
    stats.merge(runner.merge_stats(res))
    return runner.conclude(ID, tier, seed_, stats, RULE, ASSUME, t0, exhaustive=False, extra_cov={"small_vocabulary_blocks": len(blocks)})
