"""C11 -- log replay reproduces the optimized code and rejects tampered logs."""
import copy
import json
import random
import time
import hypothesis
from hypothesis import settings, strategies as st, HealthCheck, Phase
from hypothesis.stateful import RuleBasedStateMachine, rule, initialize, precondition, run_state_machine_as_test

from .. import evm, asm, hermetic, runner, pipeline, gen, docs, options, docrun

ID = "C11"
RULE = ("Hypothesis stateful machines over a pool of synthetic contracts (3-8 generated blocks) and option sets that honour the "
        "documented precondition (same criterion and split policy for both runs): rules optimize_with_log, replay_exact, tamper(op) "
        "with op in {substitute an id by another id of the same sub-block / by a bare opcode / by an id of another block, delete, "
        "duplicate, transpose, truncate, insert, rename block key, drop block key, non-list value, extra key}, replay_tampered; "
        "exact replay must reproduce the optimized file byte for byte; a tampered replay must either end with an error and no "
        "output or emit a file whose every block is observationally equivalent (E1) to the corresponding INPUT block; "
        "non-trivial = log with >= 1 optimized sub-block (exact) / tamper that changes >= 1 id (tampered); distinct by (contract, options, log)")
ASSUME = ["reference interpreter vf/evm.py for the equivalence of emitted blocks", "greedy back-end for the logged run (deterministic)"]
FROM_LOG = "in_optimized_from_log.json_solc"
OPTSETS = [["-greedy"], ["-storage", "-greedy"], ["-partition", "-size", "-greedy"], ["-length", "-push0", "-greedy"],
           ["-no-simplification", "-greedy"]]
TAMPERS = ["subst-same", "subst-opcode", "subst-other", "delete", "duplicate", "transpose", "truncate", "insert", "rename-key", "drop-key",
           "non-list", "extra-key", "swap-keys"]


def run_optimize(doc, argv):
    full = ["in.json_solc"] + list(argv) + ["-log", "-csv", "seq.csv", "-block-csv", "blocks.csv", "-dest-log", "out.log"]
    return pipeline.gasol(hermetic.gasol_main, full, {"in.json_solc": json.dumps(doc)}, [docrun.OUT, "out.log"], cpu=120)


def run_replay(doc, argv, log_text):
    full = ["in.json_solc"] + list(argv) + ["-optimize-from-log", "the.log", "-csv", "seq.csv", "-block-csv", "blocks.csv"]
    return pipeline.gasol(hermetic.gasol_main, full, {"in.json_solc": json.dumps(doc), "the.log": log_text}, [FROM_LOG], cpu=120)


def tamper(log, op, rng):
    """returns (new_log_object, changed?) -- log: dict block -> id list"""
    L = copy.deepcopy(log)
    keys = [k for k in L if isinstance(L[k], list) and L[k]]
    if not keys:
        if op == "extra-key":
            L["nonexistent_block_0"] = ["POP"]
            return L, True
        return L, False
    k = rng.choice(keys)
    ids = L[k]
    i = rng.randrange(len(ids))
    if op == "subst-same":
        others = [x for x in set(ids) if x != ids[i]]
        if not others:
            return L, False
        ids[i] = rng.choice(sorted(others))
    elif op == "subst-opcode":
        ids[i] = rng.choice(["ADD", "SUB", "POP", "DUP1", "SWAP1", "MLOAD", "CALLER", "ISZERO", "DUP2", "SWAP2", "NOT", "MSTORE"])
    elif op == "subst-other":
        ok = [q for q in keys if q != k]
        if not ok:
            return L, False
        other = L[rng.choice(ok)]
        ids[i] = rng.choice(other)
    elif op == "delete":
        del ids[i]
    elif op == "duplicate":
        ids.insert(i, ids[i])
    elif op == "transpose":
        if len(ids) < 2:
            return L, False
        j = (i + 1) % len(ids)
        if ids[i] == ids[j]:
            return L, False
        ids[i], ids[j] = ids[j], ids[i]
    elif op == "truncate":
        if len(ids) < 2:
            return L, False
        del ids[rng.randrange(1, len(ids)):]
    elif op == "insert":
        ids.insert(i, rng.choice(["POP", "DUP1", "SWAP1", "CALLER", "ADD", "PUSH0_0", "PUSH_0", "ISZERO"]))
    elif op == "rename-key":
        L[k + "9"] = L.pop(k)
    elif op == "drop-key":
        del L[k]
    elif op == "non-list":
        L[k] = rng.choice([None, 3, "POP", {"a": 1}])
    elif op == "extra-key":
        L["nonexistent_block_0"] = ["POP"]
    elif op == "swap-keys":
        ok = [q for q in keys if q != k]
        if not ok:
            return L, False
        q = rng.choice(ok)
        if L[k] == L[q]:
            return L, False
        L[k], L[q] = L[q], L[k]
    return L, L != log


def judge_tampered(doc, argv, r, stats, case, rng):
    """a tampered replay: error without output, or output equivalent to the input"""
    lab = options.label(argv)
    if r.kind != "ok":
        stats.classes["tampered replay: run ended abnormally (%s)" % r.kind] += 1
        return []
    v = r.value
    if FROM_LOG not in v["files"]:
        stats.classes["tampered replay rejected (error, no output)"] += 1
        return []
    if v["exc"] is not None:
        return [runner.Failure("output-despite-error", v["exc"][0], "[%s] replay raised %s but still wrote an output file" % (lab, v["exc"][0]), case)]
    stats.classes["tampered replay accepted"] += 1
    try:
        out_doc = json.loads(v["files"][FROM_LOG])
        pairs = docs.aligned_blocks(doc, out_doc)
    except Exception as e:
        return [runner.Failure("tampered-log-accepted", "unalignable", "[%s] tampered log (%s) accepted and the output cannot be aligned with the input: %s" % (lab, case.get("tamper"), e), case)]
    for where, bi, bo in pairs:
        try:
            a, b = asm.items_to_instrs(bi), asm.items_to_instrs(bo)
        except asm.BadItem as e:
            return [runner.Failure("tampered-log-accepted", "malformed-item", "[%s] tampered log (%s) accepted, output has an unreadable item: %s" % (lab, case.get("tamper"), e), case)]
        if asm.canon(a) == asm.canon(b):
            continue
        cmp = pipeline.compare_blocks(a, b, rng, n_states=40)
        if cmp["status"] in ("differ", "underflow") and "memory domain" not in str(cmp.get("reason")):
            return [runner.Failure("tampered-log-accepted", str(case.get("tamper")), "[%s] tampered log (%s) accepted and `%s` was replaced by the inequivalent `%s`: %s" % (
                lab, case.get("tamper"), asm.instrs_to_plain(a), asm.instrs_to_plain(b), cmp["reason"]),
                dict(case, block=asm.instrs_to_plain(a), emitted=asm.instrs_to_plain(b), state=cmp.get("state")))]
    return []


def check_exact(doc, argv, stats, case):
    """returns (failures, log dict or None, optimized text)"""
    lab = options.label(argv)
    r = run_optimize(doc, argv)
    stats.evaluations += 1
    if r.kind != "ok" or r.value["exc"] is not None or docrun.OUT not in r.value["files"] or "out.log" not in r.value["files"]:
        stats.classes["logged run raised / no output (C10 territory)"] += 1
        return [], None, None
    out1 = r.value["files"][docrun.OUT]
    log_text = r.value["files"]["out.log"]
    try:
        log = json.loads(log_text)
    except ValueError:
        return [runner.Failure("log-unreadable", "json", "[%s] the emitted log is not JSON" % lab, case)], None, None
    if log:
        stats.nontrivial.add(runner.jhash([case["blocks"], lab, "exact"]))
        stats.classes["log with optimized sub-blocks"] += 1
    else:
        stats.classes["empty log"] += 1
    rr = run_replay(doc, argv, log_text)
    stats.evaluations += 1
    if rr.kind == "timeout":
        stats.inconclusive += 1               # wall-clock limit of the harness: machine load, not the tool
        return [], log, out1
    if rr.kind != "ok" or rr.value["exc"] is not None or FROM_LOG not in rr.value["files"]:
        info = rr.info if rr.kind != "ok" else rr.value["exc"]
        return [runner.Failure("exact-replay-rejected", str(info[0] if isinstance(info, (list, tuple)) else info)[:40],
                               "[%s] replaying the untouched log failed: %s" % (lab, str(info)[:300]), case)], log, out1
    out2 = rr.value["files"][FROM_LOG]
    if out1 != out2:
        d = "?"
        try:
            from .c15 import json_diff
            d = json_diff(json.loads(out1), json.loads(out2))
        except Exception:
            pass
        return [runner.Failure("exact-replay-differs", "bytes", "[%s] replay of the untouched log does not reproduce the optimized file: %s" % (lab, str(d)[:300]), case)], log, out1
    if log and len(stats.samples) < 5:
        stats.sample({"options": lab, "log": {k: v for k, v in list(log.items())[:2]}})
    return [], log, out1


def make_machine(pool, stats, sd):
    class Replay(RuleBasedStateMachine):
        def __init__(self):
            super().__init__()
            self.doc = None
            self.argv = None
            self.log = None
            self.rng = random.Random(sd)

        @initialize(i=st.integers(0, len(pool) - 1), oi=st.integers(0, len(OPTSETS) - 1))
        def optimize_with_log(self, i, oi):
            self.blocks = pool[i]
            self.doc = docs.make_document([[("PUSH", 0x80), ("PUSH", 0x40), ("MSTORE", None), ("STOP", None)]], self.blocks)
            self.argv = OPTSETS[oi]
            self.case = {"type": "replay", "blocks": [asm.instrs_to_plain(b) for b in self.blocks], "argv": self.argv}
            fs, self.log, _ = check_exact(self.doc, self.argv, stats, self.case)
            for f in pipeline.confirmed(fs, lambda: replay_case(self.case), stats):
                stats.fail(f)

        @precondition(lambda self: self.log is not None)
        @rule(s=st.integers(0, 2 ** 30))
        def replay_tampered(self, s):
            # the operator is a function of the drawn integer (Hypothesis' sampled_from favours the first element heavily);
            # an operator that does not apply to this log gives way to the next one
            rng = random.Random(s)
            k0 = rng.randrange(len(TAMPERS))
            for k in range(len(TAMPERS)):
                op = TAMPERS[(k0 + k) % len(TAMPERS)]
                L, changed = tamper(self.log, op, rng)
                if changed:
                    break
                stats.classes["tamper not applicable: " + op] += 1
            else:
                return
            case = dict(self.case, tamper=op, log=L)
            r = run_replay(self.doc, self.argv, json.dumps(L))
            stats.evaluations += 1
            stats.nontrivial.add(runner.jhash([self.case["blocks"], self.argv, L]))
            stats.classes["tamper " + op] += 1
            fs = judge_tampered(self.doc, self.argv, r, stats, case, rng)
            for f in pipeline.confirmed(fs, lambda: replay_case(case), stats):
                stats.fail(f)

        @precondition(lambda self: self.log is not None)
        @rule(s=st.integers(0, 2 ** 30))
        def replay_doubly_tampered(self, s):
            rng = random.Random(s)
            op1, op2 = rng.choice(TAMPERS), rng.choice(TAMPERS)
            L, c1 = tamper(self.log, op1, rng)
            L, c2 = tamper(L, op2, rng)
            if L == self.log:
                return
            case = dict(self.case, tamper=op1 + "+" + op2, log=L)
            r = run_replay(self.doc, self.argv, json.dumps(L))
            stats.evaluations += 1
            stats.nontrivial.add(runner.jhash([self.case["blocks"], self.argv, L]))
            stats.classes["double tamper"] += 1
            fs = judge_tampered(self.doc, self.argv, r, stats, case, rng)
            for f in pipeline.confirmed(fs, lambda: replay_case(case), stats):
                stats.fail(f)

    return Replay


def _with_repeats(blocks, picks):
    """solc emits the same helper block several times in one contract: repeat some blocks (under a fresh tag)"""
    out = list(blocks)
    for k, p in enumerate(picks):
        b = list(blocks[p % len(blocks)])
        if b and b[0][0] == "tag":
            b[0] = ("tag", str(900 + k))
        out.append(b)
    return out


def pool_strategy():
    blk = st.one_of(gen.block(max_len=14), gen.block(max_len=16, profile=gen.MEM_PROFILE), gen.block(max_len=12, profile=gen.ARITH_PROFILE),
                    gen.block(max_len=22, profile=gen.SPLIT_PROFILE), gen.corpus_block(), gen.two_store_block())
    contract = st.builds(_with_repeats, st.lists(blk, min_size=3, max_size=8), st.lists(st.integers(0, 7), min_size=0, max_size=3))
    return st.lists(contract, min_size=10, max_size=10)


def shard_run(n_machines, steps, sd):
    hermetic.setup_repo()
    stats = runner.Stats()
    pools = []

    @hypothesis.seed(sd)
    @settings(max_examples=6, database=None, deadline=None, phases=(Phase.generate,), suppress_health_check=list(HealthCheck))   # the first example Hypothesis generates is the minimal one: keep the last of six
    @hypothesis.given(pool_strategy())
    def draw(p):
        pools.append(p)
    draw()
    M = make_machine(pools[-1], stats, sd)
    run_state_machine_as_test(hypothesis.seed(sd)(M), settings=settings(max_examples=n_machines, stateful_step_count=steps, deadline=None,
                                                                        database=None, phases=(Phase.generate,),
                                                                        suppress_health_check=list(HealthCheck)))
    return stats


def replay_case(case, stats=None):
    stats = stats or runner.Stats()
    blocks = [asm.parse_plain(t) for t in case["blocks"]]
    doc = docs.make_document([[("PUSH", 0x80), ("PUSH", 0x40), ("MSTORE", None), ("STOP", None)]], blocks)
    argv = case["argv"]
    base = {"type": "replay", "blocks": case["blocks"], "argv": argv}
    if "log" not in case:
        fs, _, _ = check_exact(doc, argv, stats, base)
        return fs
    r = run_replay(doc, argv, json.dumps(case["log"]))
    stats.evaluations += 1
    return judge_tampered(doc, argv, r, stats, case, random.Random(1))


def _dispatch(fn, a):
    return fn(*a)


def main(tier, seed_):
    t0 = time.time()
    hermetic.setup_repo()
    stats = runner.Stats()
    with pipeline.isolated():
        for path in runner.replay_files(ID):
            for f in replay_case(json.load(open(path))["case"], stats):
                stats.fail(f)
    n_m, steps = (8, 8) if tier == "quick" else (400, 12)
    res = runner.run_shards(_dispatch, [(shard_run, (n_m, steps, runner.shard_seed(seed_, i, "c11"))) for i in range(runner.NPROC)])
    stats.merge(runner.merge_stats(res))
    return runner.conclude(ID, tier, seed_, stats, RULE, ASSUME, t0, exhaustive=False)
