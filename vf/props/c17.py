"""C17 -- instruction-set restrictions chosen by the user are honoured (PUSH0, -c)."""
import json
import random
import time
from hypothesis import given, settings, seed, strategies as st, HealthCheck, Phase

from .. import evm, asm, hermetic, runner, pipeline, gen, docs, options, cost, docrun
from . import c08

ID = "C17"
RULE = ("blocks in which a zero is pushed, folded (SUB(X,X), PUSH 1 PUSH 1 SUB) or produced by a rule x push0 {on,off} x criteria "
        "x split policies with -greedy (and z3 for a share): (1) with -push0 no emitted item is a PUSH0 unless the input block had "
        "one, in the JSON output and in the -bl text output; (2) the printed totals / CSV equal the independent cost model evaluated "
        "with the same PUSH0 setting on input AND output (via C08's oracle); (3) in the specification every zero push is an entry "
        "PUSH0 (gas 2, size 1) when enabled and PUSH (gas 3, size 2) when disabled; (4) multi-contract documents with -c X: the "
        "emitted asm equals X's part of the unrestricted run, nothing else is emitted, an unknown name is an error; "
        "non-trivial = block whose input or output contains a zero push / document with >= 2 contracts; distinct by (input, options)")
ASSUME = ["independent cost table vf/cost.py"]

ZERO_PROFILE = dict(push=8, pseudo=1, dup=12, swap=8, pop=4, bin=14, un=5, ter=0, env0=3, env1=1, mem=6, sto=5, keccak=0, split=2, idiom=14)


@st.composite
def zero_block(draw):
    b = draw(gen.block(max_len=12, profile=ZERO_PROFILE))
    # sprinkle zero producers
    k = draw(st.integers(1, 3))
    for _ in range(k):
        pos = draw(st.integers(0, len(b)))
        while pos < len(b) and (b[pos][0] in asm.BLOCK_BEGIN) or (0 < pos <= len(b) and b[pos - 1][0] in asm.BLOCK_END):
            pos = pos + 1 if pos < len(b) and b[pos][0] in asm.BLOCK_BEGIN else pos - 1
        snip = draw(st.sampled_from([[("PUSH", 0)], [("PUSH", 1), ("PUSH", 1), ("SUB", None)], [("DUP1", None), ("DUP1", None), ("SUB", None)],
                                     [("PUSH", 0), ("PUSH", 5), ("MUL", None)], [("DUP1", None), ("DUP1", None), ("XOR", None)],
                                     [("PUSH", 0), ("PUSH", 0), ("MSTORE", None)], [("PUSH", 1), ("ISZERO", None)], [("PUSH", 0), ("DUP1", None), ("SSTORE", None)]]))
        b[pos:pos] = snip
    return b


def has_zero_push(instrs):
    return any(n == "PUSH" and a == 0 for n, a in instrs)


def check_document(blocks, argv, stats, label):
    """PUSH0 clauses (1)+(2) on a generated contract"""
    fails = []
    doc = docs.make_document([[("PUSH", 0), ("DUP1", None), ("REVERT", None)]], blocks)
    r = docrun.run(doc, argv)
    stats.evaluations += 1
    lab = options.label(argv)
    case = {"type": "doc", "blocks": [asm.instrs_to_plain(b) for b in blocks], "argv": list(argv), "label": label}
    if r.kind != "ok" or r.value["exc"] is not None or r.value["doc_out"] is None:
        stats.classes["run raised / no output (C10 territory)"] += 1
        return fails
    disabled = "-push0" in argv
    stats.classes["push0 disabled" if disabled else "push0 enabled"] += 1
    try:
        pairs = docs.aligned_blocks(doc, r.value["doc_out"])
    except ValueError:
        stats.classes["unalignable output (C09 territory)"] += 1
        return fails
    for where, bi, bo in pairs:
        names_in = [it["name"] for it in bi]
        names_out = [it["name"] for it in bo]
        try:
            a, b = asm.items_to_instrs(bi), asm.items_to_instrs(bo)
        except asm.BadItem:
            continue
        if has_zero_push(a) or has_zero_push(b):
            stats.nontrivial.add(runner.jhash([asm.instrs_to_plain(a), lab]))
            if len(stats.samples) < 6 and a != b:
                stats.sample({"options": lab, "block": asm.instrs_to_plain(a), "emitted_item_names": names_out})
        if disabled and "PUSH0" in names_out and "PUSH0" not in names_in:
            fails.append(runner.Failure("push0-emitted-although-disabled", "json", "[%s] `%s` => emitted items %s" % (lab, asm.instrs_to_plain(a), names_out),
                                        dict(case, blocks=[asm.instrs_to_plain(a)])))
        if not disabled:
            # enabled: every zero push of the emitted block must be priced as PUSH0 on both sides -> decided by the totals below
            for it in bo:
                if it["name"] == "PUSH" and it.get("value") in ("0", "00") and it.get("begin", 0) == -1 and False:
                    pass
    return fails


def check_text(instrs, argv, stats, label):
    """-bl text mode: no PUSH0 token in the output when disabled (unless in the input)"""
    fails = []
    text = " ".join(asm.instr_to_evm_text(i) for i in instrs)
    full = ["in.txt", "-bl"] + list(argv) + ["-csv", "seq.csv", "-block-csv", "blocks.csv", "-dest-log", "out.log"]
    r = pipeline.gasol(hermetic.gasol_main, full, {"in.txt": text}, ["in_optimized.txt", "in_optimized.json_solc"], cpu=60)
    stats.evaluations += 1
    if r.kind != "ok" or r.value["exc"] is not None or not r.value["files"]:
        stats.classes["-bl run raised / no output (C10 territory)"] += 1
        return fails
    out = list(r.value["files"].values())[0]   # the -bl output name is computed with a stale format tag (…json_solc)
    toks = out.split()
    disabled = "-push0" in argv
    if has_zero_push(instrs):
        stats.nontrivial.add(runner.jhash([text, options.label(argv), "bl"]))
    if disabled and "PUSH0" in toks:
        fails.append(runner.Failure("push0-emitted-although-disabled", "text", "[%s -bl] `%s` => `%s`" % (options.label(argv), text, out[:300]),
                                    {"type": "text", "blocks": [asm.instrs_to_plain(instrs)], "argv": list(argv)}))
    if not disabled:
        # enabled: a zero push must be spelled PUSH0
        for i, t in enumerate(toks[:-1]):
            if t.startswith("PUSH") and t[4:].isdigit() and toks[i + 1].lower() in ("0x0", "0x00", "0"):
                fails.append(runner.Failure("zero-push-not-push0-although-enabled", "text", "[%s -bl] `%s` => `%s`" % (options.label(argv), text, out[:300]),
                                            {"type": "text", "blocks": [asm.instrs_to_plain(instrs)], "argv": list(argv)}))
                break
    return fails


def check_spec(instrs, argv, stats, label):
    """clause (3): pricing of zero pushes inside the specification"""
    fails = []
    r = pipeline.get_specs(instrs, argv, cpu=30)
    stats.evaluations += 1
    if r.kind != "ok":
        return fails
    disabled = "-push0" in argv
    for b in r.value:
        for name, S in (b.get("spec") or {}).items():
            for u in S["user_instrs"]:
                if u.get("push") and u["disasm"] in ("PUSH", "PUSH0") and u.get("value") == [0]:
                    stats.nontrivial.add(runner.jhash([asm.instrs_to_plain(instrs), argv, "spec"]))
                    want = ("PUSH", 3, 2) if disabled else ("PUSH0", 2, 1)
                    got = (u["disasm"], u["gas"], u["size"])
                    if got != want:
                        field = "disasm" if got[0] != want[0] else "gas" if got[1] != want[1] else "size"
                        fails.append(runner.Failure("zero-push-priced-inconsistently", field, "[%s] spec of `%s`: zero push entry %s is (disasm,gas,size)=%s, expected %s" % (
                            options.label(argv), S["original_instrs"], u["id"], got, want),
                            {"type": "spec", "blocks": [asm.instrs_to_plain(instrs)], "argv": list(argv)}))
                elif u["disasm"] == "PUSH0" and disabled:
                    fails.append(runner.Failure("push0-emitted-although-disabled", "spec", "[%s] specification contains %s" % (options.label(argv), u["id"]),
                                                {"type": "spec", "blocks": [asm.instrs_to_plain(instrs)], "argv": list(argv)}))
    return fails


def check_contract_selection(doc, argv, stats, label):
    """clause (4): -c X"""
    fails = []
    names = [c for c, v in doc["contracts"].items() if v.get("asm")]
    if len(names) < 2:
        return fails
    full = docrun.run(doc, argv)
    stats.evaluations += 1
    if full.kind != "ok" or full.value["doc_out"] is None:
        stats.classes["run raised / no output (C10 territory)"] += 1
        return fails
    stats.nontrivial.add(runner.jhash([doc, argv, "-c"]))
    case = {"type": "cdoc", "doc": doc, "argv": list(argv)}
    for cname in names:
        short = cname.split("/")[-1].split(":")[-1]
        r = docrun.run(doc, list(argv) + ["-c", short])
        stats.evaluations += 1
        if r.kind != "ok" or r.value["exc"] is not None or r.value["doc_out"] is None:
            fails.append(runner.Failure("contract-selection-failed", "run", "-c %s: %s" % (short, (r.info or r.value.get("exc"))), case))
            continue
        want = full.value["doc_out"]["contracts"][cname]["asm"]
        if r.value["doc_out"] != want:
            from .c15 import json_diff
            fails.append(runner.Failure("contract-selection-differs", "asm", "-c %s: emitted asm differs from the unrestricted run: %s" % (short, json_diff(want, r.value["doc_out"])), case))
    r = docrun.run(doc, list(argv) + ["-c", "NoSuchContractName"])
    stats.evaluations += 1
    if r.kind == "ok" and r.value["exc"] is None and r.value["exit"] == 0 and r.value["doc_out"] is not None:
        fails.append(runner.Failure("unknown-contract-accepted", "-c", "-c NoSuchContractName produced an output file", case))
    return fails


def argv_strategy(backends):
    return options.pipeline_options(backends)


NAME_PAIRS = [("a.sol:First", "b.sol:Second"), ("a.sol:Token", "b.sol:XToken"), ("b.sol:XToken", "a.sol:Token"), ("a.sol:ERC20", "lib/b.sol:MyERC20"),
              ("a.sol:C", "a.sol:CC"), ("a.sol:CC", "a.sol:C"), ("x/a.sol:Lib", "y/a.sol:LibX"), ("a.sol:Vault", "b.sol:Vault2")]


def shard_random(n, sd):
    hermetic.setup_repo()
    stats = runner.Stats()

    @seed(sd)
    @settings(max_examples=n, database=None, deadline=None, phases=(Phase.generate,),
              suppress_health_check=list(HealthCheck), report_multiple_bugs=False)
    @given(st.lists(zero_block(), min_size=1, max_size=4), argv_strategy([options.GREEDY, options.GREEDY, options.GREEDY, options.SMT_Z3]),
           gen.body(max_len=10, profile=ZERO_PROFILE, allow_split=False), st.integers(0, 7))
    def prop(blocks, argv, body, sel):
        fs = check_document(blocks, argv, stats, "random")
        fs += [f for f in c08.check_document(blocks, argv, runner.Stats(), "random") if f.kind in ("totals-differ", "csv-differs", "costlier")]
        g_argv = [a for a in argv if a in ("-storage", "-partition", "-size", "-length", "-no-simplification", "-push0")] + ["-greedy"]
        fs += check_spec(blocks[0], g_argv, stats, "random")
        if "-solver" not in argv:
            fs += check_text(body + [("PUSH", 0), ("ADD", None)], argv, stats, "random")
        if sel == 0:
            # contract names with and without a common suffix / prefix, in both document orders
            n1, n2 = NAME_PAIRS[(len(body) + len(blocks)) % len(NAME_PAIRS)]
            doc = docs.make_document([[("STOP", None)]], blocks[:2], name=n1,
                                     extra_contracts={n2: docs.make_document([[("PUSH", 0), ("POP", None), ("STOP", None)]], blocks[-1:], name="x")["contracts"]["x"],
                                                      "b.sol:IFace": {}})
            fs += check_contract_selection(doc, g_argv, stats, "random")
        if fs:
            for f in pipeline.confirmed(fs, lambda: _redo(fs), stats):
                stats.fail(f)
    prop()
    return stats


def _redo(fs):
    out, seen = [], set()
    for f in fs:
        k = json.dumps(f.case, sort_keys=True, default=str)
        if k not in seen:
            seen.add(k)
            out += replay_case(f.case)
    return out


def replay_case(case, stats=None):
    stats = stats or runner.Stats()
    t = case["type"]
    if t == "cdoc":
        return check_contract_selection(case["doc"], case["argv"], stats, "replay")
    blocks = [asm.parse_plain(x) for x in case["blocks"]]
    out = []
    for argv in ([case["argv"]] if "argv" in case else [a + b + ["-greedy"] for a in options.PUSH0 for b in options.CRIT]):
        if t == "doc":
            out += check_document(blocks, argv, stats, "replay")
            out += [f for f in c08.check_document(blocks, argv, runner.Stats(), "replay") if f.kind in ("totals-differ", "csv-differs", "costlier")]
        elif t == "text":
            out += check_text(blocks[0], argv, stats, "replay")
        elif t == "spec":
            out += check_spec(blocks[0], argv, stats, "replay")
    return out


def _dispatch(fn, a):
    return fn(*a)


def main(tier, seed_):
    t0 = time.time()
    hermetic.setup_repo()
    stats = runner.Stats()
    with pipeline.isolated():
        for path in runner.replay_files(ID):
            for f in replay_case(json.load(open(path))["case"], stats):
                stats.fail(f)
    n = 800 if tier == "quick" else 15000
    per = max(1, n // runner.NPROC)
    res = runner.run_shards(_dispatch, [(shard_random, (per, runner.shard_seed(seed_, i, "c17"))) for i in range(runner.NPROC)])
    stats.merge(runner.merge_stats(res))
    return runner.conclude(ID, tier, seed_, stats, RULE, ASSUME, t0, exhaustive=False)
