"""C03 -- simplification rules and constant folding are identities on 256-bit words."""
import random
import time
from hypothesis import given, settings, seed, strategies as st, HealthCheck, Phase

from .. import evm, asm, hermetic, runner, catalogue, pipeline, gen, cost

ID = "C03"
ON = ["-greedy"]
OFF = ["-greedy", "-no-simplification"]
RULE = ("rule catalogue enumerated exhaustively (binary/unary/ternary ops x operand patterns {X,Y | X,X | X,c | c,X | c,c'} "
        "over boundary constants, generic two-level terms, ISZERO/NOT chains, specific context rules, memory templates) "
        "plus Hypothesis-generated constant-dense blocks; each block's specification with rules on and with "
        "-no-simplification is evaluated (E3) on the full boundary grid of its free operands + random states and compared "
        "with the reference interpreter (E1); non-trivial = a rule or fold fired (spec 'rules' non-empty or rules-on spec "
        "differs from rules-off spec); distinct by (rules fired, block). The size-mode clause is decided on emitted code by C08.")
ASSUME = ["reference interpreter vf/evm.py (cross-checked against z3 bit-vectors in selftest)",
          "KECCAK256 modelled by SHA3-256 (GASOL never folds hashes)",
          "states whose block run touches memory above 2^32 are discarded (out of gas in reality)"]


def culprit_of(spec_on, instrs):
    rules = spec_on.get("rules") or []
    if rules:
        names = sorted(set(r.split(" ")[0] if r.startswith("EVAL") else r for r in rules))
        evals = sorted(set(r for r in rules if r.startswith("EVAL")))
        if evals:
            # folding: key by operator
            ops = sorted(set(e.rstrip(")]").split(",")[-1].strip(" '\"") for e in evals))
            names = [n for n in names if n != "EVAL"] + ["EVAL " + "/".join(ops)]
        return "+".join(names)
    return "norule:" + "/".join(sorted(set(n for n, _ in instrs if not n.startswith(("DUP", "SWAP", "PUSH", "POP")))))


def check_block(instrs, rng, stats, label, n_states=16, use_grid=True, record=True, pre=None):
    """returns list of Failures for one block.  pre = (spec list rules on, spec list rules off) when
    the specifications were already computed in a batch child"""
    fails = []
    if pre is None:
        r = pipeline.get_specs_multi([(instrs, ON), (instrs, OFF)], cpu=8)
        if r.kind != "ok":
            stats.evaluations += 1
            stats.classes["child-" + r.kind + " (C10 territory)"] += 1
            return fails
        pre = r.value
    stats.evaluations += 1
    b_on, b_off = pre[0][0], pre[1][0]
    if "error" in b_on or "error" in b_off:
        stats.classes["spec-generation-raised (C10 territory)"] += 1
        return fails
    if len(b_on["spec"]) != 1 or len(b_off["spec"]) != 1:
        stats.classes["multi-segment (skipped)"] += 1
        return fails
    S_on = list(b_on["spec"].values())[0]
    S_off = list(b_off["spec"].values())[0]
    body = asm.optimizable(instrs)
    fired = bool(S_on.get("rules")) or _shape(S_on) != _shape(S_off)
    if fired:
        stats.nontrivial.add(runner.jhash([sorted(S_on.get("rules") or []), asm.instrs_to_plain(body)]))
        stats.classes["rule-or-fold-fired"] += 1
        for r in set((x.split(" ")[0] if x.startswith("EVAL") else x) for x in (S_on.get("rules") or [])):
            stats.classes["rule " + r] += 1
    else:
        stats.classes["no-rule"] += 1
    for which, S in (("on", S_on), ("off", S_off)):
        res = pipeline.check_spec_against_block(S, body, rng, n_states=n_states, use_grid=use_grid, lin_cap=24,
                                                lin_samples=4)
        stats.notes["state-evaluations"] += res["evals"]
        stats.notes["discarded-states"] += res["discards"]
        if res["status"] == "nodomain":
            stats.classes["no-state-in-domain"] += 1
        if res["status"] in ("mismatch", "fault"):
            if which == "on" and not any(f.kind.endswith("off") for f in fails):
                culprit = culprit_of(S_on, body)
            else:
                culprit = culprit_of({}, body)
            kind = ("value-mismatch-rules-" if res["status"] == "mismatch" else "malformed-spec-rules-") + which
            # a mismatch that disappears under another admissible order is an ordering problem: C02 territory
            if res["status"] == "mismatch" and res.get("n_lin", 1) > 1:
                if pipeline.some_order_matches(S, body, res["state"]):
                    stats.classes["ordering-only mismatch (C02 territory)"] += 1
                    continue
            fails.append(runner.Failure(kind, culprit,
                                        "%s: spec(rules %s) of `%s`: %s" % (culprit, which, asm.instrs_to_plain(body), res.get("reason")),
                                        {"type": "block", "block": asm.instrs_to_plain(body), "label": label,
                                         "which": which, "state": res.get("state"), "lin": res.get("lin"),
                                         "reason": res.get("reason"), "rules": S_on.get("rules")}))
    if record and fired:
        stats.sample({"block": asm.instrs_to_plain(body), "rules": S_on.get("rules"), "tgt_on": S_on["tgt_ws"],
                      "instrs_on": [u["id"] for u in S_on["user_instrs"]], "label": label})
    return fails


def _shape(S):
    return (len(S["user_instrs"]), sorted(u["disasm"] for u in S["user_instrs"]), len(S["tgt_ws"]))


def shard_catalogue(templates, sd):
    hermetic.setup_repo()
    stats = runner.Stats()
    rng = random.Random(sd)
    for label, instrs in templates:
        fs = check_block(instrs, rng, stats, label)
        for f in pipeline.confirmed(fs, lambda: check_block(instrs, random.Random(1), runner.Stats(), label), stats):
            stats.fail(f)
    return stats


def shard_random(n, sd):
    hermetic.setup_repo()
    stats = runner.Stats()

    @seed(sd)
    @settings(max_examples=n, database=None, deadline=None, phases=(Phase.generate,),
              suppress_health_check=list(HealthCheck), report_multiple_bugs=False)
    @given(st.one_of(gen.body(max_len=14, profile=gen.ARITH_PROFILE, allow_split=False),
                     gen.body(max_len=10, profile=gen.DEFAULT_PROFILE, allow_split=False)), st.integers(0, 2 ** 32))
    def prop(instrs, s):
        fs = check_block(instrs, random.Random(s), stats, "random", use_grid=False)
        for f in pipeline.confirmed(fs, lambda: check_block(instrs, random.Random(s), runner.Stats(), "random", use_grid=False), stats):
            stats.fail(f)
    prop()
    return stats


def replay_case(case, stats=None):
    stats = stats or runner.Stats()
    out = []
    for text in ([case["block"]] if "block" in case else case["blocks"]):
        instrs = asm.parse_plain(text)
        out += check_block(instrs, random.Random(1), stats, case.get("label", "replay"), n_states=32)
    return out


def shrink(f):
    """ddmin on the instruction list keeping the same bucket"""
    from ..shrink import shrink_block
    instrs = asm.parse_plain(f.case["block"])

    def still(cand):
        fs = check_block(cand, random.Random(1), runner.Stats(), "shrink", n_states=24)
        for x in fs:
            if x.bucket == f.bucket:
                return x
        return None
    best = shrink_block(instrs, still, budget_s=15)
    return best or f


def main(tier, seed_):
    t0 = time.time()
    hermetic.setup_repo()
    stats = runner.Stats()
    # replay tier
    import json
    with pipeline.isolated():
        for path in runner.replay_files(ID):
            case = json.load(open(path))["case"]
            for f in replay_case(case, stats):
                stats.fail(f)
    temps = catalogue.templates(tier)
    nrand = 1500 if tier == "quick" else 60000
    jobs = [(shard_catalogue, (ch, runner.shard_seed(seed_, i, "c03cat"))) for i, ch in enumerate(runner.chunks(temps, runner.NPROC))]
    per = max(1, nrand // runner.NPROC)
    res = runner.run_shards(_dispatch, [(fn, a) for fn, a in jobs] +
                            [(shard_random, (per, runner.shard_seed(seed_, i, "c03rnd"))) for i in range(runner.NPROC)])
    stats.merge(runner.merge_stats(res))
    stats.notes["catalogue-templates"] = len(temps)
    return runner.conclude(ID, tier, seed_, stats, RULE, ASSUME, t0, exhaustive=False,
                           extra_cov={"catalogue_exhaustive": True, "catalogue_templates": len(temps),
                                      "random_blocks": per * runner.NPROC}, shrink=shrink)


def _dispatch(fn, a):
    return fn(*a)
