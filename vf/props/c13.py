"""C13 -- specification generation and greedy search are deterministic."""
import copy
import json
import os
import random
import subprocess
import sys
import time
from hypothesis import given, settings, seed, strategies as st, HealthCheck, Phase

from .. import evm, asm, hermetic, runner, pipeline, gen, options, docs

ID = "C13"
HASHSEEDS = ["0", "1", "2", "4242"]
RULE = ("the same (input, options) is evaluated in 4 long-lived tool processes started with PYTHONHASHSEED 0, 1, 2 and 4242, each with "
        "its own working/temporary directory, while all 16 cores are busy with the other groups; inputs: dependency-dense blocks "
        "(many memory operations, diamond-shaped term DAGs, loads kept in the stack across an aliasing store that stores a value "
        "built from them, several unused hashes / loads between stores), contracts of generated blocks, shipped examples (thorough); compared "
        "field by field: specification JSON (identifiers included), sub-block list, greedy id list, the emitted .smt2 text of the "
        "Max-SMT problem under encoder options drawn per case (term / memory encoding, bounds and pruning flags), and for contracts the emitted file, log and statistics (minus timings); Max-SMT *results* are excluded "
        "(solvers are documented as non-deterministic); non-trivial = specification with >= 3 dependence pairs or >= 2 maximal "
        "elements in its dependency graph, or a contract; distinct by (input, options)")
ASSUME = ["string-hash randomisation is the only process-level source of nondeterminism that can be varied from outside; machine "
          "load is whatever 16 busy worker processes provide"]
TIME_KEYS = ("solver_time_in_sec",)


def observe(job):
    """(inside a hash-seed server) everything C13 compares"""
    import gasol_asm
    from greedy.block_generation import greedy_from_json
    from smt_encoding.block_optimizer import BlockOptimizer
    import global_params.paths as paths
    argv = job["argv"]
    if job["type"] == "doc":
        full = ["in.json_solc"] + argv + ["-csv", "seq.csv", "-block-csv", "blocks.csv", "-dest-log", "out.log", "-log"]
        res = hermetic.gasol_main(full, {"in.json_solc": job["doc"]}, ["in_optimized.json_solc", "out.log", "seq.csv", "blocks.csv"])
        seq = res["files"].get("seq.csv", "")
        return {"exit": res["exit"], "exc": res["exc"] and res["exc"][:2], "out": res["files"].get("in_optimized.json_solc"),
                "log": res["files"].get("out.log"), "blocks_csv": res["files"].get("blocks.csv"), "seq_csv_lines": len(seq.splitlines())}
    params = hermetic.make_params(["in.json"] + argv)
    hermetic.prepare_globals(params)
    out = []
    for b in hermetic.build_blocks(job["items"]):
        if b.instructions_to_optimize_plain() == []:
            continue
        d = {}
        try:
            sfs, subs = gasol_asm.compute_original_sfs_with_simplifications(b, params)
        except Exception as e:
            out.append({"spec_error": type(e).__name__})
            continue
        d["spec"] = copy.deepcopy(sfs["syrup_contract"])
        d["subs"] = subs
        d["greedy"] = {}
        d["smt2"] = {}
        for name, S in sfs["syrup_contract"].items():
            try:
                _, _, res, ids, err = greedy_from_json(copy.deepcopy(S))
                d["greedy"][name] = [ids, err]
            except BaseException as e:  # noqa
                d["greedy"][name] = ["raised", type(e).__name__]
            if job.get("smt") and len(S["user_instrs"]) <= 12 and S["init_progr_len"] <= 14:
                try:
                    # the text of the Max-SMT problem under the encoder options drawn for this job
                    p_smt = hermetic.make_params(["in.json"] + [a for a in argv if a != "-greedy"] + ["-solver", "z3"] + list(job.get("enc") or []))
                    bo = BlockOptimizer(name, copy.deepcopy(S), p_smt, 2)
                    bo.generate_intermediate_files()
                    d["smt2"][name] = open(bo._encoding_file).read()
                except BaseException as e:  # noqa
                    d["smt2"][name] = "raised " + type(e).__name__
        out.append(d)
    return out


class Server:
    def __init__(self, hashseed):
        env = dict(os.environ)
        env["PYTHONHASHSEED"] = hashseed
        env["PYTHONDONTWRITEBYTECODE"] = "1"
        env["PYTHONWARNINGS"] = "ignore"
        here = os.path.dirname(os.path.dirname(os.path.dirname(os.path.abspath(__file__))))
        self.p = subprocess.Popen([sys.executable, "-m", "vf.hs_server"], cwd=here, env=env, stdin=subprocess.PIPE,
                                  stdout=subprocess.PIPE, stderr=subprocess.DEVNULL, text=True, bufsize=1)
        hello = json.loads(self.p.stdout.readline())
        assert hello.get("ready") and hello.get("hashseed") == hashseed, hello
        self.hashseed = hashseed

    def ask(self, job):
        self.p.stdin.write(json.dumps(job) + "\n")
        self.p.stdin.flush()
        line = self.p.stdout.readline()
        if not line:
            raise runner.HarnessError("hash-seed server %s died" % self.hashseed)
        return json.loads(line)

    def close(self):
        try:
            self.p.stdin.write(json.dumps({"quit": True}) + "\n")
            self.p.stdin.flush()
            self.p.wait(timeout=10)
        except Exception:
            self.p.kill()


def first_diff(a, b, path="$"):
    from .c12 import first_diff as fd
    return fd(a, b, path)


def field_of(d):
    from .c12 import field_of as fo
    return fo(d)


def dense(S):
    deps = S.get("dependencies", [])
    if len(deps) >= 3:
        return True
    firsts = set(a for a, _ in deps)
    seconds = set(b for _, b in deps)
    return len(seconds - firsts) >= 2


def compare(job, servers, stats, case):
    answers = [s.ask(job) for s in servers]
    stats.evaluations += 1
    if any(a.get("kind") != "ok" for a in answers) and not all(a.get("kind") == answers[0].get("kind") for a in answers):
        # a wall-clock time-out in one of the servers (machine load) is not a difference between runs
        stats.inconclusive += 1
        stats.classes["inconclusive: a server timed out / failed on this job"] += 1
        return []
    ref = answers[0]
    if ref["kind"] == "ok" and job["type"] == "block":
        if any(dense(S) for d in ref["value"] for S in (d.get("spec") or {}).values()):
            stats.nontrivial.add(runner.jhash([job.get("items"), job["argv"]]))
            stats.classes["dependency-dense specification"] += 1
        if any(d.get("smt2") for d in ref["value"]):
            stats.classes[".smt2 text compared"] += 1
    elif job["type"] == "doc":
        stats.nontrivial.add(runner.jhash([job["doc"][:2000], job["argv"]]))
        stats.classes["contract run compared"] += 1
    fails = []
    for s, ans in zip(servers[1:], answers[1:]):
        if ans != ref:
            d = first_diff(ref, ans) or "?"
            fails.append(runner.Failure("hashseed-dependent", field_of(d), "[%s] PYTHONHASHSEED=%s vs %s: %s" % (
                options.label(job["argv"]), servers[0].hashseed, s.hashseed, d[:400]), case))
            break
    return fails


DEP_PROFILE = dict(push=12, pseudo=1, dup=14, swap=10, pop=3, bin=10, un=2, ter=0, env0=3, env1=1, mem=26, sto=12, keccak=5, split=1, idiom=2)


def group_run(n, sd, shipped):
    stats = runner.Stats()
    servers = [Server(h) for h in HASHSEEDS]
    try:
        @seed(sd)
        @settings(max_examples=n, database=None, deadline=None, phases=(Phase.generate,),
                  suppress_health_check=list(HealthCheck), report_multiple_bugs=False)
        @given(st.one_of(gen.body(min_len=8, max_len=30, profile=DEP_PROFILE, allow_split=False), gen.body(min_len=8, max_len=30, profile=DEP_PROFILE), gen.body(max_len=16), gen.corpus_block(), gen.kept_loads_block(), gen.two_store_block(), gen.dead_load_by_rule_block(), gen.unused_hashes_block()),
               st.builds(lambda a, b, c: a + b + c + ["-greedy"], st.sampled_from(options.SPLIT), st.sampled_from(options.RULES), st.sampled_from(options.CRIT)),
               st.lists(gen.block(max_len=12, profile=gen.MEM_PROFILE), min_size=2, max_size=4), st.integers(0, 9), options.encoder_options())
        def prop(instrs, argv, blocks, k, enc):
            job = {"type": "block", "items": asm.instrs_to_items(instrs), "argv": argv, "smt": k < 5, "enc": enc}
            case = {"type": "block", "blocks": [asm.instrs_to_plain(instrs)], "argv": argv, "enc": enc}
            for f in compare(job, servers, stats, case):
                stats.fail(f)
            if k == 0:
                doc = docs.make_document([[("STOP", None)]], blocks)
                job = {"type": "doc", "doc": json.dumps(doc), "argv": argv}
                case = {"type": "doc", "blocks": [asm.instrs_to_plain(b) for b in blocks], "argv": argv}
                for f in compare(job, servers, stats, case):
                    stats.fail(f)
        prop()
        for f in shipped:
            job = {"type": "doc", "doc": open(f).read(), "argv": ["-greedy"]}
            for x in compare(job, servers, stats, {"type": "file", "file": os.path.basename(f), "argv": ["-greedy"]}):
                stats.fail(x)
        if len(stats.samples) < 3:
            stats.sample({"hashseeds": HASHSEEDS, "server_pids": [s.p.pid for s in servers]})
    finally:
        for s in servers:
            s.close()
    return stats


def replay_case(case, stats=None):
    stats = stats or runner.Stats()
    servers = [Server(h) for h in HASHSEEDS]
    try:
        if case["type"] == "block":
            job = {"type": "block", "items": asm.instrs_to_items(asm.parse_plain(case["blocks"][0])), "argv": case["argv"], "smt": True,
                   "enc": case.get("enc")}
        elif case["type"] == "doc":
            doc = docs.make_document([[("STOP", None)]], [asm.parse_plain(t) for t in case["blocks"]])
            job = {"type": "doc", "doc": json.dumps(doc), "argv": case["argv"]}
        else:
            c = [f for f in gen.corpus_files() if os.path.basename(f) == case["file"]]
            if not c:
                return []
            job = {"type": "doc", "doc": open(c[0]).read(), "argv": case["argv"]}
        return compare(job, servers, stats, case)
    finally:
        for s in servers:
            s.close()


def _dispatch(fn, a):
    return fn(*a)


def main(tier, seed_):
    t0 = time.time()
    stats = runner.Stats()
    for path in runner.replay_files(ID):
        for f in replay_case(json.load(open(path))["case"], stats):
            stats.fail(f)
    groups = max(1, runner.NPROC // len(HASHSEEDS))
    n = 600 if tier == "quick" else 40000
    files = sorted(gen.corpus_files(), key=os.path.getsize)
    files = files[:2] if tier == "quick" else files[:16]
    per = max(1, n // groups)
    jobs = [(group_run, (per, runner.shard_seed(seed_, i, "c13"), files[i::groups])) for i in range(groups)]
    res = runner.run_shards(_dispatch, jobs, procs=groups)
    stats.merge(runner.merge_stats(res))
    return runner.conclude(ID, tier, seed_, stats, RULE, ASSUME, t0, exhaustive=False,
                           extra_cov={"hashseeds": HASHSEEDS, "process_groups": groups})
