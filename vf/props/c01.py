"""C01 -- optimized blocks are observationally equivalent to the original."""
import json
import random
import time
from hypothesis import given, settings, seed, strategies as st, HealthCheck, Phase

from .. import evm, asm, hermetic, runner, pipeline, gen, docs, options, catalogue

ID = "C01"
RULE = ("contracts of 2-8 generated basic blocks (grammar generator with arithmetic/memory/split profiles, mutated corpus "
        "blocks, rule-catalogue templates) x option sets drawn from {no split,-storage,-partition} x {gas,-size,-length} x "
        "{rules,-no-simplification} x {push0,-push0} x {-greedy | -ub-greedy+z3 | z3 | oms stand-in}; the real CLI entry "
        "(main_gasol) writes *_optimized.json_solc, which is read back with an independent reader, aligned block by block "
        "with the input and every changed block is compared with the original by the reference interpreter (E1) on "
        "boundary/aliasing/random states incl. a run on a stack of exactly need(B) words; non-trivial = emitted block differs "
        "from the input block and >= 1 state reached the end of both; distinct by (block, options)")
ASSUME = ["reference interpreter vf/evm.py (external calls/creates are adversarial functions of the event)",
          "gas left, PC, MSIZE, stack limit 1024 and out-of-gas are outside the equivalence (standard super-optimisation caveats)",
          "states where the ORIGINAL touches memory above 2^32 are discarded",
          "Max-SMT back-ends run with /usr/bin/z3 as stand-in solver (bin/z3, bin/optimathsat are empty)"]

OUT = "in_optimized.json_solc"


def run_cli(doc, argv, single=False, want=(OUT,), extra_inputs=None, timeout=120):
    inputs = {"in.json_solc": json.dumps(doc)}
    if extra_inputs:
        inputs.update(extra_inputs)
    full = ["in.json_solc"] + list(argv) + ["-o", OUT, "-csv", "seq.csv", "-block-csv", "blocks.csv", "-dest-log", "out.log"]
    return pipeline.gasol(hermetic.gasol_main, full, inputs, list(want), cpu=timeout)


def diff_ops(a, b):
    ca, cb = {}, {}
    for n, _ in a:
        ca[n] = ca.get(n, 0) + 1
    for n, _ in b:
        cb[n] = cb.get(n, 0) + 1
    rem = sorted(n for n in ca if ca[n] > cb.get(n, 0) and not n.startswith(("DUP", "SWAP", "POP")))
    add = sorted(n for n in cb if cb[n] > ca.get(n, 0) and not n.startswith(("DUP", "SWAP", "POP")))
    return "-%s +%s" % (",".join(rem) or "0", ",".join(add) or "0")


def check_document(blocks, argv, rng, stats, label, n_states=20, use_grid=False):
    """blocks: list of instruction lists forming the runtime code.  returns Failures"""
    fails = []
    doc = docs.make_document([[("PUSH", 0x80), ("PUSH", 0x40), ("MSTORE", None), ("STOP", None)]], blocks)
    r = run_cli(doc, argv)
    stats.evaluations += 1
    lab = options.label(argv)
    if r.kind != "ok":
        stats.classes["run-" + r.kind + " (C10 territory)"] += 1
        return fails
    res = r.value
    if res["exc"] is not None or OUT not in res["files"]:
        stats.classes["run raised / no output (C10 territory)"] += 1
        return fails
    try:
        out_doc = json.loads(res["files"][OUT])
        pairs = docs.aligned_blocks(doc, out_doc)
    except Exception as e:
        fails.append(runner.Failure("unalignable-output", lab.split(" ")[0], "emitted document cannot be aligned with the input: %s" % e,
                                    {"type": "doc", "blocks": [asm.instrs_to_plain(b) for b in blocks], "argv": list(argv), "label": label}))
        return fails
    for where, bi, bo in pairs:
        try:
            a = asm.items_to_instrs(bi)
        except asm.BadItem:
            continue
        try:
            b = asm.items_to_instrs(bo)
        except asm.BadItem as e:
            fails.append(runner.Failure("malformed-item", str(e)[:40], "emitted block has an unreadable item: %s" % e,
                                        {"type": "doc", "blocks": [asm.instrs_to_plain(a)], "argv": list(argv), "label": label}))
            continue
        stats.notes["blocks"] += 1
        if asm.canon(a) == asm.canon(b):
            stats.classes["block unchanged"] += 1
            continue
        stats.classes["block changed"] += 1
        stats.classes["changed under " + lab] += 1
        cmp = pipeline.compare_blocks(a, b, rng, n_states=n_states, use_grid=use_grid)
        stats.notes["state-evaluations"] += cmp["evals"]
        stats.notes["discarded-states"] += cmp["discards"]
        if cmp["status"] == "nodomain":
            stats.classes["no-state-in-domain"] += 1
            continue
        stats.nontrivial.add(runner.jhash([asm.instrs_to_plain(a), lab]))
        if cmp["status"] in ("differ", "underflow"):
            kind = "not-equivalent" if cmp["status"] == "differ" else "deeper-stack-needed"
            fails.append(runner.Failure(kind, diff_ops(a, b), "%s under [%s]: `%s` => `%s`: %s" % (
                kind, lab, asm.instrs_to_plain(a), asm.instrs_to_plain(b), cmp["reason"]),
                {"type": "doc", "blocks": [asm.instrs_to_plain(a)], "argv": list(argv), "label": label,
                 "optimized": asm.instrs_to_plain(b), "state": cmp.get("state"), "reason": cmp["reason"]}))
        else:
            stats.sample({"options": lab, "block": asm.instrs_to_plain(a), "optimized": asm.instrs_to_plain(b),
                          "states_compared": cmp["evals"]})
    return fails


def check_text(blocks, argv, rng, stats, label, n_states=20):
    """the -bl path (optimize_isolated_asm_block): text in, text out"""
    fails = []
    text = " ".join(asm.instr_to_evm_text(i) for b in blocks for i in b)
    full = ["in.txt", "-bl"] + list(argv) + ["-csv", "seq.csv", "-block-csv", "blocks.csv", "-dest-log", "out.log"]
    r = pipeline.gasol(hermetic.gasol_main, full, {"in.txt": text}, ["in_optimized.txt", "in_optimized.json_solc"], cpu=120)
    stats.evaluations += 1
    lab = options.label(argv) + " -bl"
    if r.kind != "ok" or r.value["exc"] is not None or not r.value["files"]:
        stats.classes["-bl run raised / no output (C10 territory)"] += 1
        return fails
    out = list(r.value["files"].values())[0]
    lines = [l for l in out.split("\n")]
    try:
        got = [asm.parse_plain(l) for l in lines]
    except Exception as e:
        fails.append(runner.Failure("malformed-item", "text", "[%s] emitted text cannot be read: %s: %r" % (lab, e, out[:200]),
                                    {"type": "text", "blocks": [asm.instrs_to_plain(b) for b in blocks], "argv": list(argv), "label": label}))
        return fails
    # the tool splits the text into basic blocks exactly as our reader splits the item stream
    want = [asm.items_to_instrs(b) for b in asm.split_blocks(asm.instrs_to_items([i for b in blocks for i in b]))]
    if len(got) != len(want):
        fails.append(runner.Failure("unalignable-output", "text", "[%s] %d blocks in, %d lines out" % (lab, len(want), len(got)),
                                    {"type": "text", "blocks": [asm.instrs_to_plain(b) for b in blocks], "argv": list(argv), "label": label}))
        return fails
    for a, b in zip(want, got):
        stats.notes["blocks"] += 1
        if asm.canon(a) == asm.canon(b):
            stats.classes["block unchanged"] += 1
            continue
        stats.classes["block changed"] += 1
        stats.classes["changed under " + lab] += 1
        cmp = pipeline.compare_blocks(a, b, rng, n_states=n_states)
        if cmp["status"] == "nodomain":
            continue
        stats.nontrivial.add(runner.jhash([asm.instrs_to_plain(a), lab]))
        if cmp["status"] in ("differ", "underflow"):
            kind = "not-equivalent" if cmp["status"] == "differ" else "deeper-stack-needed"
            fails.append(runner.Failure(kind, diff_ops(a, b), "%s under [%s]: `%s` => `%s`: %s" % (kind, lab, asm.instrs_to_plain(a), asm.instrs_to_plain(b), cmp["reason"]),
                                        {"type": "text", "blocks": [asm.instrs_to_plain(a)], "argv": list(argv), "label": label, "optimized": asm.instrs_to_plain(b),
                                         "state": cmp.get("state")}))
    return fails


def block_strategy():
    return st.one_of(gen.block(max_len=16, profile=gen.DEFAULT_PROFILE),
                     gen.block(max_len=14, profile=gen.ARITH_PROFILE),
                     gen.block(max_len=20, profile=gen.MEM_PROFILE),
                     gen.block(max_len=26, profile=gen.SPLIT_PROFILE),
                     gen.corpus_block(), gen.operand_split_block(), gen.kept_loads_block(), gen.two_store_block(), gen.dead_load_by_rule_block())


def shard_random(n, sd, backends):
    hermetic.setup_repo()
    stats = runner.Stats()

    @seed(sd)
    @settings(max_examples=n, database=None, deadline=None, phases=(Phase.generate,),
              suppress_health_check=list(HealthCheck), report_multiple_bugs=False)
    @given(st.lists(block_strategy(), min_size=2, max_size=8), options.pipeline_options(backends), st.integers(0, 2 ** 32))
    def prop(blocks, argv, s):
        if s % 7 == 0 and "-solver" not in argv:
            # a share of the cases goes through the -bl entry (text in, text out, its own keep-or-revert code)
            nolib = [[i for i in b if i[0] != "PUSHLIB"] for b in blocks]
            fs = check_text([b for b in nolib if b], argv, random.Random(s), stats, "random")
        else:
            fs = check_document(blocks, argv, random.Random(s), stats, "random")
        for f in pipeline.confirmed(fs, lambda: _redo(fs, s), stats):
            stats.fail(f)
    prop()
    return stats


def _redo(fs, s):
    out = []
    for f in fs:
        out += replay_case(f.case)
    return out


def shard_templates(temps, sd, argvs):
    hermetic.setup_repo()
    stats = runner.Stats()
    rng = random.Random(sd)
    G = 12
    for i in range(0, len(temps), G):
        part = [t[1] + [("STOP", None)] if False else t[1] for t in temps[i:i + G]]
        argv = argvs[(i // G) % len(argvs)]
        fs = check_document(part, argv, rng, stats, "catalogue", use_grid=True, n_states=12)
        for f in pipeline.confirmed(fs, lambda: _redo(fs, 1), stats):
            stats.fail(f)
    return stats


def replay_case(case, stats=None):
    stats = stats or runner.Stats()
    blocks = [asm.parse_plain(t) for t in case["blocks"]]
    argvs = [case["argv"]] if "argv" in case else options.all_pipeline_options()
    out = []
    if case.get("type") == "text":
        for argv in argvs:
            out += check_text(blocks, argv, random.Random(1), stats, case.get("label", "replay"), n_states=40)
        return out
    for argv in argvs:
        out += check_document(blocks, argv, random.Random(1), stats, case.get("label", "replay"), n_states=40, use_grid=True)
    return out


def shrink(f):
    from ..shrink import shrink_block
    instrs = asm.parse_plain(f.case["blocks"][0])
    argv = f.case["argv"]

    def still(cand):
        for x in check_document([cand], argv, random.Random(1), runner.Stats(), "shrink", n_states=30, use_grid=True):
            if x.kind == f.kind:
                return x
        return None
    return shrink_block(instrs, still, budget_s=15) or f


def _dispatch(fn, a):
    return fn(*a)


def main(tier, seed_):
    t0 = time.time()
    hermetic.setup_repo()
    stats = runner.Stats()
    with pipeline.isolated():
        for path in runner.replay_files(ID):
            for f in replay_case(json.load(open(path))["case"], stats):
                stats.fail(f)
    if tier == "quick":
        n_greedy, n_smt = 1100, 60
        temps = [t for t in catalogue.templates("quick") if t[0].split(":")[0] in ("bin", "un", "chain", "spec", "mem", "ter", "share")]
    else:
        n_greedy, n_smt = 40000, 2500
        temps = catalogue.templates("quick")
    argvs = options.all_pipeline_options()
    jobs = []
    for i in range(runner.NPROC):
        jobs.append((shard_random, (max(1, n_greedy // runner.NPROC), runner.shard_seed(seed_, i, "c01g"), [options.GREEDY])))
        jobs.append((shard_random, (max(1, n_smt // runner.NPROC), runner.shard_seed(seed_, i, "c01s"),
                                    [options.UBG_Z3, options.SMT_Z3, options.SMT_OMS])))
    for i, ch in enumerate(runner.chunks(temps, runner.NPROC)):
        jobs.append((shard_templates, (ch, runner.shard_seed(seed_, i, "c01t"), argvs[i::runner.NPROC] or argvs)))
    res = runner.run_shards(_dispatch, jobs)
    stats.merge(runner.merge_stats(res))
    return runner.conclude(ID, tier, seed_, stats, RULE, ASSUME, t0, exhaustive=False,
                           extra_cov={"catalogue_templates_through_pipeline": len(temps)}, shrink=shrink)
