"""C04 -- the greedy back-end returns a sequence that realizes the specification."""
import copy
import json
import random
import time
from hypothesis import given, settings, seed, strategies as st, HealthCheck, Phase

from .. import evm, asm, hermetic, runner, pipeline, gen, seqcheck, options, catalogue

ID = "C04"
RULE = ("specifications produced by the front-end on generated blocks (grammar generator incl. a deep-stack profile with 17-20 "
        "live values, mutated corpus blocks, catalogue templates) under {default,-storage,-partition} x {rules on,off} x "
        "{push0 on,off}, plus format-preserving metamorphic variants (consistent renaming of variables, permutation of "
        "user_instrs, extra untouched source words); greedy_from_json is called on each and, when it reports error=0, its id "
        "list is run by the abstract sequence checker E4 (no underflow, DUP/SWAP 1..16, stores exactly once, every dependence "
        "pair in order for all occurrences, operands exactly as named, exact final stack) and the decoded instructions are "
        "compared with the segment by the reference interpreter; non-trivial = non-empty sequence for a specification with "
        ">=1 uninterpreted instruction or a non-identity permutation; distinct by specification hash")
ASSUME = ["sequence checker vf/seqcheck.py; commutativity taken from the specification's own flag",
          "error=1 results are allowed by the property (counted)"]


def greedy_all(items, argv):
    """(child) front-end specs + greedy result for each"""
    from greedy.block_generation import greedy_from_json
    out = []
    for b in hermetic.spec_of_items(items, argv):
        if "error" in b:
            out.append({"error": b["error"]})
            continue
        for name, S in b["spec"].items():
            out.append(run_greedy(S))
    return out


def run_greedy(S):
    from greedy.block_generation import greedy_from_json
    S0 = copy.deepcopy(S)
    try:
        _, _, res, resids, err = greedy_from_json(copy.deepcopy(S))
    except BaseException as e:  # noqa  (the function itself promises to catch everything)
        return {"spec": S0, "raised": "%s: %s" % (type(e).__name__, str(e)[:200])}
    return {"spec": S0, "res": res, "ids": resids, "err": err}


def variants(S, rng):
    """format-preserving variants of a specification"""
    out = []
    # 1. consistent renaming of variables
    names = set(S["src_ws"]) | set(x for x in S["tgt_ws"] if isinstance(x, str))
    for u in S["user_instrs"]:
        names |= set(x for x in u["inpt_sk"] if isinstance(x, str)) | set(u.get("outpt_sk", []))
    names = sorted(names)
    perm = list(range(100, 100 + len(names)))
    rng.shuffle(perm)
    ren = {n: "s(%d)" % p for n, p in zip(names, perm)}

    def rn(x):
        return ren.get(x, x) if isinstance(x, str) else x
    V = copy.deepcopy(S)
    V["src_ws"] = [rn(x) for x in V["src_ws"]]
    V["tgt_ws"] = [rn(x) for x in V["tgt_ws"]]
    V["vars"] = [rn(x) for x in V.get("vars", [])]
    for u in V["user_instrs"]:
        u["inpt_sk"] = [rn(x) for x in u["inpt_sk"]]
        u["outpt_sk"] = [rn(x) for x in u.get("outpt_sk", [])]
    out.append(("rename", V))
    # 2. permutation of user_instrs
    V = copy.deepcopy(S)
    rng.shuffle(V["user_instrs"])
    out.append(("permute-instrs", V))
    # 3. extra untouched words below
    V = copy.deepcopy(S)
    extra = ["s(%d)" % (900 + i) for i in range(rng.randint(1, 3))]
    V["src_ws"] = V["src_ws"] + extra
    V["tgt_ws"] = V["tgt_ws"] + extra
    V["vars"] = list(V.get("vars", [])) + extra
    V["max_sk_sz"] = V.get("max_sk_sz", 0) + len(extra)
    out.append(("extra-words", V))
    return out


def judge(r, stats, label, argv, segment=None, liborder=None, rng=None):
    fails = []
    if "error" in r and "spec" not in r:
        stats.classes["spec-generation-raised (C10 territory)"] += 1
        return fails
    S = r["spec"]
    stats.evaluations += 1
    if "raised" in r:
        fails.append(runner.Failure("greedy-raised", r["raised"].split(":")[0], "greedy_from_json raised " + r["raised"],
                                    {"type": "spec", "spec": S, "label": label}))
        return fails
    if r["err"] != 0:
        stats.classes["greedy error=1 (allowed)"] += 1
        return fails
    ids = r["ids"]
    stats.classes["greedy error=0"] += 1
    nontriv = bool(ids) and (any(not u.get("push") for u in S["user_instrs"]) or S["src_ws"] != S["tgt_ws"])
    if nontriv:
        stats.nontrivial.add(runner.jhash([S["src_ws"], S["tgt_ws"], [(u["id"], u["inpt_sk"], u.get("outpt_sk")) for u in S["user_instrs"]], S.get("dependencies")]))
    if len(S["src_ws"]) > 16 or len(S["tgt_ws"]) > 16:
        stats.classes["deep stack (>16 words)"] += 1
    if r["res"] is None or len(r["res"]) != len(ids):
        fails.append(runner.Failure("opcodes-ids-mismatch", "len", "greedy returned %s opcodes for %d ids" % (None if r["res"] is None else len(r["res"]), len(ids)),
                                    {"type": "spec", "spec": S, "label": label, "ids": ids}))
        return fails
    v = seqcheck.check(S, ids)
    if not v:
        kind = "not-realizing"
        reason = v.reason
        cul = ("underflow" if "underflow" in reason else "depth" if "outside 1..16" in reason else "store-count" if "performed" in reason
               else "ordering" if "ordering" in reason else "operands" if "applied to" in reason else "final-stack" if "final stack" in reason else "other")
        fails.append(runner.Failure(kind, cul, "greedy (%s) %s: ids %s: %s" % (label, " ".join(argv), ids, reason),
                                    {"type": "spec", "spec": S, "label": label, "ids": ids, "reason": reason}))
        return fails
    if segment is not None and rng is not None:
        try:
            new = seqcheck.ids_to_instrs(S, ids, liborder)
            cmp = pipeline.compare_blocks(segment, new, rng, n_states=8)
            if cmp["status"] in ("differ", "underflow"):
                stats.classes["concrete disagreement although E4 accepts (front-end issue: C01/C02/C03 territory)"] += 1
        except Exception:
            stats.classes["concrete confirmation not applicable"] += 1
    if nontriv and len(stats.samples) < 6:
        stats.sample({"src_ws": S["src_ws"], "tgt_ws": S["tgt_ws"], "ids": ids, "label": label})
    return fails


def check_block(instrs, argv, rng, stats, label, with_variants=True):
    fails = []
    r = pipeline.gasol(greedy_all, asm.instrs_to_items(instrs), list(argv), cpu=30)
    if r.kind != "ok":
        stats.classes["child-" + r.kind] += 1
        return fails
    lo = pipeline.lib_order(instrs)
    for g in r.value:
        seg = None
        if "spec" in g:
            try:
                seg = pipeline.segment_instrs(g["spec"], lo)
            except Exception:
                seg = None
        fails += judge(g, stats, label, argv, seg, lo, rng)
        if with_variants and "spec" in g and g.get("err") == 0:
            for vname, V in variants(g["spec"], rng):
                rv = pipeline.gasol(run_greedy, V, cpu=30)
                if rv.kind == "ok":
                    fails += judge(rv.value, stats, label + "/" + vname, argv)
                else:
                    stats.classes["variant child-" + rv.kind] += 1
    return fails


DEEP_PROFILE = dict(push=10, pseudo=1, dup=26, swap=22, pop=3, bin=14, un=3, ter=1, env0=6, env1=1, mem=6, sto=3, keccak=1,
                    split=0, idiom=2)


def argv_strategy():
    return st.builds(lambda a, b, c: ["-greedy"] + a + b + c, st.sampled_from(options.SPLIT), st.sampled_from(options.RULES),
                     st.sampled_from(options.PUSH0))


def shard_random(n, sd):
    hermetic.setup_repo()
    stats = runner.Stats()

    @seed(sd)
    @settings(max_examples=n, database=None, deadline=None, phases=(Phase.generate,),
              suppress_health_check=list(HealthCheck), report_multiple_bugs=False)
    @given(st.one_of(gen.body(max_len=18), gen.body(max_len=24, profile=gen.MEM_PROFILE),
                     gen.body(min_len=12, max_len=34, profile=DEEP_PROFILE, max_need=16, allow_split=False),
                     gen.body(max_len=14, profile=gen.ARITH_PROFILE), gen.corpus_block(),
                     gen.kept_loads_block(), gen.two_store_block(), gen.dead_load_by_rule_block(), gen.unused_hashes_block(), gen.store_terms_block(), gen.swapped_commutative_block(), gen.operand_split_block()),
           argv_strategy(), st.integers(0, 2 ** 32))
    def prop(instrs, argv, s):
        fs = check_block(instrs, argv, random.Random(s), stats, "random")
        for f in pipeline.confirmed(fs, lambda: _redo(fs), stats):
            stats.fail(f)
    prop()
    return stats


def _redo(fs):
    out = []
    for f in fs:
        out += replay_case(f.case)
    return out


def replay_case(case, stats=None):
    stats = stats or runner.Stats()
    if case["type"] == "spec":
        r = pipeline.gasol(run_greedy, case["spec"], cpu=30)
        if r.kind != "ok":
            return []
        return judge(r.value, stats, case.get("label", "replay"), [])
    out = []
    for text in case["blocks"]:
        for argv in ([case["argv"]] if "argv" in case else [["-greedy"] + a + b for a in options.SPLIT for b in options.RULES]):
            out += check_block(asm.parse_plain(text), argv, random.Random(1), stats, "replay")
    return out


def shrink(f):
    """shrink a failing specification by deleting target words / instructions while it still fails the same way"""
    S = f.case["spec"]
    best = f

    def fails_same(V):
        r = pipeline.gasol(run_greedy, V, cpu=20)
        if r.kind != "ok":
            return None
        for x in judge(r.value, runner.Stats(), f.case.get("label", "shrink"), []):
            if x.bucket == f.bucket:
                return x
        return None
    t0 = time.time()
    changed = True
    while changed and time.time() - t0 < 15:
        changed = False
        for i in range(len(S["tgt_ws"])):
            V = copy.deepcopy(S)
            del V["tgt_ws"][i]
            x = fails_same(V)
            if x:
                S, best, changed = V, x, True
                break
        if changed:
            continue
        used = set(v for v in S["tgt_ws"] if isinstance(v, str))
        for u in S["user_instrs"]:
            used |= set(v for v in u["inpt_sk"] if isinstance(v, str))
        for i, u in enumerate(S["user_instrs"]):
            if not u.get("storage") and not (set(u.get("outpt_sk", [])) & used):
                V = copy.deepcopy(S)
                del V["user_instrs"][i]
                V["dependencies"] = [d for d in V.get("dependencies", []) if u["id"] not in d]
                for k in ("storage_dependences", "memory_dependences"):
                    V[k] = [d for d in V.get(k, []) if u["id"] not in d]
                x = fails_same(V)
                if x:
                    S, best, changed = V, x, True
                    break
    return best


def _dispatch(fn, a):
    return fn(*a)


def main(tier, seed_):
    t0 = time.time()
    hermetic.setup_repo()
    stats = runner.Stats()
    with pipeline.isolated():
        for path in runner.replay_files(ID):
            for f in replay_case(json.load(open(path))["case"], stats):
                stats.fail(f)
    n = 3200 if tier == "quick" else 150000
    per = max(1, n // runner.NPROC)
    res = runner.run_shards(_dispatch, [(shard_random, (per, runner.shard_seed(seed_, i, "c04"))) for i in range(runner.NPROC)])
    stats.merge(runner.merge_stats(res))
    return runner.conclude(ID, tier, seed_, stats, RULE, ASSUME, t0, exhaustive=False, shrink=shrink)
