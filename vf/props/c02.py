"""C02 -- the stack/memory specification denotes the block under every admissible schedule."""
import json
import random
import time
from hypothesis import given, settings, seed, strategies as st, HealthCheck, Phase

from .. import evm, asm, hermetic, runner, catalogue, pipeline, gen, spec_eval

ID = "C02"
MODES = [[], ["-storage"], ["-partition"]]
RULE = ("memory/storage/hash-dense blocks (Hypothesis grammar generator with an aliasing offset family, the memory templates "
        "of the rule catalogue, mutated corpus blocks) x {default,-storage,-partition} x {rules on,-no-simplification}; every "
        "sub-block specification is evaluated (E3) under ALL linearizations of its memory/storage/hash operations that respect "
        "data flow + declared dependences (all when <= 120, else extremes + pair-swapping + sampled ones) on aliasing/boundary/"
        "random states and compared (stack, memory bytes, storage) with the reference interpreter (E1) on the segment the "
        "specification records; non-trivial = specification with >= 2 memory/storage/hash operations; distinct by specification hash")
ASSUME = ["reference interpreter vf/evm.py", "KECCAK256 modelled by SHA3-256",
          "segment = the specification's own original_instrs (that it is the real sub-block is C16/C14)",
          "states whose block run touches memory above 2^32 are discarded"]


def kinds_of(S):
    return sorted(u["disasm"] for u in S["user_instrs"] if u["disasm"] in spec_eval.EFFECT)


def culprit_of(S, res, seg):
    ks = kinds_of(S)
    rules = [r for r in (S.get("rules") or [])]
    tag = "/".join(sorted(set(ks))) or "/".join(sorted(set(n for n, _ in seg if n in spec_eval.EFFECT)))
    if rules:
        names = sorted(set("useless-store" if "useless" in r else (r.split(" ")[0] if r.startswith("EVAL") else r) for r in rules))
        return tag + " rules:" + "+".join(names)
    return tag


def classify(S, seg, res):
    """failure kind: ordering (some admissible order is right, another is wrong) vs value (no order is right)"""
    if res["status"] == "fault":
        return "malformed-spec"
    if pipeline.some_order_matches(S, seg, res["state"]):
        return "missing-ordering"
    return "wrong-memory-semantics"


def check_block(instrs, argv, rng, stats, label, n_states=20, pre=None, lin_cap=120):
    fails = []
    if pre is None:
        r = pipeline.get_specs(instrs, argv, cpu=20)
        if r.kind != "ok":
            stats.evaluations += 1
            stats.classes["child-" + r.kind + " (C10 territory)"] += 1
            return fails
        pre = r.value
    for b in pre:
        if "error" in b:
            stats.evaluations += 1
            stats.classes["spec-generation-raised (C10 territory)"] += 1
            continue
        for name, S in b["spec"].items():
            stats.evaluations += 1
            try:
                seg = pipeline.segment_instrs(S, pipeline.lib_order(instrs))
            except Exception:
                stats.classes["original_instrs unreadable (C16 territory)"] += 1
                continue
            ks = kinds_of(S)
            neff = len([n for n, _ in seg if n in spec_eval.EFFECT])
            if neff >= 2:
                stats.nontrivial.add(runner.jhash([S["src_ws"], S["tgt_ws"], [(u["disasm"], u["inpt_sk"], u.get("outpt_sk"), u.get("value")) for u in S["user_instrs"]], S.get("dependencies")]))
            stats.classes["effects-in-segment=%s" % min(neff, 6)] += 1
            stats.classes["mode " + (" ".join(a for a in argv if a in ("-storage", "-partition", "-no-simplification")) or "default")] += 1
            res = pipeline.check_spec_against_block(S, seg, rng, n_states=n_states, lin_cap=lin_cap, lin_samples=16,
                                                    liborder=pipeline.lib_order(instrs))
            stats.notes["state-evaluations"] += res["evals"]
            stats.notes["discarded-states"] += res["discards"]
            stats.notes["linearizations"] += res["n_lin"]
            if res["n_lin"] > 1:
                stats.classes["multi-schedule spec"] += 1
            if not res["exhaustive"]:
                stats.classes["schedules sampled (not all)"] += 1
            if res["status"] == "nodomain":
                stats.classes["no-state-in-domain"] += 1
            if res["status"] in ("mismatch", "fault"):
                kind = classify(S, seg, res)
                cul = culprit_of(S, res, seg)
                fails.append(runner.Failure(kind, cul, "%s [%s] segment `%s` (%s): %s" % (
                    kind, cul, asm.instrs_to_plain(seg), " ".join(argv), res.get("reason")),
                    {"type": "block", "block": asm.instrs_to_plain(instrs), "argv": list(argv), "label": label,
                     "segment": asm.instrs_to_plain(seg), "state": res.get("state"), "lin": res.get("lin"),
                     "reason": res.get("reason"), "deps": S.get("dependencies"), "rules": S.get("rules")}))
            elif neff >= 2 and len(stats.samples) < 6:
                stats.sample({"segment": asm.instrs_to_plain(seg), "argv": list(argv), "effects": ks,
                              "dependencies": S.get("dependencies"), "linearizations": res["n_lin"]})
    return fails


def argv_for(mode, rules):
    return ["-greedy"] + list(mode) + ([] if rules else ["-no-simplification"])


def shard_catalogue(templates, sd):
    hermetic.setup_repo()
    stats = runner.Stats()
    rng = random.Random(sd)
    for label, instrs in templates:
        for mode in MODES:
            for rules in (True, False):
                if mode and not rules:
                    continue
                av = argv_for(mode, rules)
                fs = check_block(instrs, av, rng, stats, label)
                for f in pipeline.confirmed(fs, lambda: check_block(instrs, av, random.Random(1), runner.Stats(), label), stats):
                    stats.fail(f)
    return stats


def shard_random(n, sd):
    hermetic.setup_repo()
    stats = runner.Stats()

    @seed(sd)
    @settings(max_examples=n, database=None, deadline=None, phases=(Phase.generate,),
              suppress_health_check=list(HealthCheck), report_multiple_bugs=False)
    @given(st.one_of(gen.body(min_len=3, max_len=26, profile=gen.MEM_PROFILE),
                     gen.body(min_len=3, max_len=18, profile=gen.MEM_PROFILE, allow_split=False),
                     gen.corpus_block(), gen.unused_hashes_block(), gen.kept_loads_block(), gen.two_store_block(), gen.dead_load_by_rule_block()),
           st.sampled_from(MODES), st.booleans(), st.integers(0, 2 ** 32))
    def prop(instrs, mode, rules, s):
        av = argv_for(mode, rules)
        fs = check_block(instrs, av, random.Random(s), stats, "random")
        for f in pipeline.confirmed(fs, lambda: check_block(instrs, av, random.Random(s), runner.Stats(), "random"), stats):
            stats.fail(f)
    prop()
    return stats


def replay_case(case, stats=None):
    stats = stats or runner.Stats()
    out = []
    for text in ([case["block"]] if "block" in case else case["blocks"]):
        instrs = asm.parse_plain(text)
        argvs = [case["argv"]] if "argv" in case else [argv_for(m, r) for m in MODES for r in (True, False)]
        for argv in argvs:
            out += check_block(instrs, argv, random.Random(1), stats, case.get("label", "replay"), n_states=32)
    return out


def shrink(f):
    from ..shrink import shrink_block
    instrs = asm.parse_plain(f.case["block"])
    argv = f.case["argv"]

    def still(cand):
        for x in check_block(cand, argv, random.Random(1), runner.Stats(), "shrink", n_states=24):
            if x.kind == f.kind:
                return x
        return None
    return shrink_block(instrs, still, budget_s=15) or f


def _dispatch(fn, a):
    return fn(*a)


def main(tier, seed_):
    t0 = time.time()
    hermetic.setup_repo()
    stats = runner.Stats()
    with pipeline.isolated():
        for path in runner.replay_files(ID):
            for f in replay_case(json.load(open(path))["case"], stats):
                stats.fail(f)
    temps = catalogue.memory_templates(tier)
    nrand = 2400 if tier == "quick" else 120000
    per = max(1, nrand // runner.NPROC)
    jobs = [(shard_catalogue, (ch, runner.shard_seed(seed_, i, "c02cat"))) for i, ch in enumerate(runner.chunks(temps, runner.NPROC))]
    jobs += [(shard_random, (per, runner.shard_seed(seed_, i, "c02rnd"))) for i in range(runner.NPROC)]
    res = runner.run_shards(_dispatch, jobs)
    stats.merge(runner.merge_stats(res))
    return runner.conclude(ID, tier, seed_, stats, RULE, ASSUME, t0, exhaustive=False,
                           extra_cov={"memory_templates": len(temps), "random_blocks": per * runner.NPROC}, shrink=shrink)
