"""C18 -- formula constructors preserve truth value and the emitted text matches the formula."""
import itertools
import json
import random
import time
from hypothesis import given, settings, seed, strategies as st, HealthCheck, Phase

from .. import hermetic, runner

ID = "C18"
RULE = ("well-sorted formula trees over boolean atoms p,q, literals true/false, integer terms x,y,0,1,2,f(x) and the connectors "
        "and/or (binary and ternary)/not/=>/= (bool and int)/</<=/distinct; bounded-exhaustive for depth <= 2 (all trees over the "
        "atom set), Hypothesis-random for depth <= 4 with n-ary and nested same-connector arguments; each tree is built through "
        "add_* bottom-up and three truth tables over 20 valuations must agree: the tuple AST, the constructed object, the "
        "re-parsed translate_formula text; formulas that compare == must have equal truth tables (checked on argument "
        "permutations and connector swaps); the literal-equality corner {true,false} x {0..3} follows the suite's own "
        "test_eq_bool_int (a boolean never equals an integer); non-trivial = construction changed the shape (simplification fired); "
        "distinct by tree")
ASSUME = ["own S-expression reader and evaluator; f is a fixed total function on the small integer domain"]

VALS = [dict(p=p, q=q, x=x, y=y) for p in (False, True) for q in (False, True) for (x, y) in ((0, 0), (0, 1), (1, 0), (1, 2), (2, 1))]


def fval(n):
    return (2 * n + 1) % 3


# ------------------------------------------------------------------ AST evaluation
def ev(a, v):
    k = a[0]
    if k == "b":
        return v[a[1]]
    if k == "T":
        return True
    if k == "F":
        return False
    if k == "i":
        return v[a[1]]
    if k == "n":
        return a[1]
    if k == "f":
        return fval(ev(a[1], v))
    if k == "and":
        return all(ev(x, v) for x in a[1:])
    if k == "or":
        return any(ev(x, v) for x in a[1:])
    if k == "not":
        return not ev(a[1], v)
    if k == "=>":
        return (not ev(a[1], v)) or ev(a[2], v)
    if k in ("=b", "=i"):
        return ev(a[1], v) == ev(a[2], v)
    if k == "=x":                      # ill-sorted literal corner: bool vs int is never equal
        return False
    if k == "<":
        return ev(a[1], v) < ev(a[2], v)
    if k == "<=":
        return ev(a[1], v) <= ev(a[2], v)
    if k == "distinct":
        xs = [ev(x, v) for x in a[1:]]
        return len(set(xs)) == len(xs)
    raise ValueError(k)


def show(a):
    k = a[0]
    if k in ("b", "i"):
        return a[1]
    if k == "T":
        return "true"
    if k == "F":
        return "false"
    if k == "n":
        return str(a[1])
    return "(%s %s)" % (k, " ".join(show(x) for x in a[1:]))


# ------------------------------------------------------------------ construction through the tool's API
class Api:
    def __init__(self):
        import smt_encoding.constraints.connector_factory as cf
        from smt_encoding.constraints.function import Function, Sort, Const, ExpressionReference
        from smt_encoding.constraints.connector import Connector
        from smt_encoding.solver.solver_from_executable import translate_formula
        self.cf = cf
        self.Connector = Connector
        self.ExpressionReference = ExpressionReference
        self.translate = translate_formula
        self.atoms = {"p": Const("p", Sort.boolean), "q": Const("q", Sort.boolean),
                      "x": Const("x", Sort.integer), "y": Const("y", Sort.integer)}
        self.f = Function("f", Sort.integer, Sort.integer)

    def build(self, a):
        k = a[0]
        cf = self.cf
        if k in ("b", "i"):
            return self.atoms[a[1]]
        if k == "T":
            return True
        if k == "F":
            return False
        if k == "n":
            return a[1]
        if k == "f":
            return self.f(self.build(a[1]))
        args = [self.build(x) for x in a[1:]]
        if k == "and":
            return cf.add_and(*args)
        if k == "or":
            return cf.add_or(*args)
        if k == "not":
            return cf.add_not(args[0])
        if k == "=>":
            return cf.add_implies(*args)
        if k in ("=b", "=i", "=x"):
            return cf.add_eq(*args)
        if k == "<":
            return cf.add_lt(*args)
        if k == "<=":
            return cf.add_leq(*args)
        if k == "distinct":
            return cf.add_distinct(*args)
        raise ValueError(k)

    def ev_obj(self, o, v):
        if type(o) == bool:
            return o
        if type(o) == int:
            return o
        if type(o) == self.ExpressionReference:
            name = str(o.func)
            if name == "f":
                return fval(self.ev_obj(o.arguments[0], v))
            return v[name]
        if type(o) == self.Connector:
            n = o.connector_name
            xs = [self.ev_obj(x, v) for x in o.arguments]
            return ev_named(n, xs)
        raise TypeError(type(o))

    def shape(self, o):
        if type(o) in (bool, int):
            return repr(o)
        if type(o) == self.ExpressionReference:
            return str(o.func) + "(" + ",".join(self.shape(x) for x in o.arguments) + ")" if o.arguments else str(o.func)
        return o.connector_name + "(" + ",".join(self.shape(x) for x in o.arguments) + ")"


def ev_named(n, xs):
    if n == "and":
        return all(xs)
    if n == "or":
        return any(xs)
    if n == "not":
        if len(xs) != 1:
            raise ValueError("not arity")
        return not xs[0]
    if n == "=>":
        if len(xs) != 2:
            raise ValueError("=> arity")
        return (not xs[0]) or xs[1]
    if n == "=":
        if len(xs) != 2:
            raise ValueError("= arity")
        if type(xs[0]) != type(xs[1]):
            return False
        return xs[0] == xs[1]
    if n == "<":
        return xs[0] < xs[1]
    if n == "<=":
        return xs[0] <= xs[1]
    if n == "distinct":
        return len(set(xs)) == len(xs)
    raise ValueError("unknown connector " + n)


# ------------------------------------------------------------------ own S-expression reader
def parse_sexp(text):
    toks = text.replace("(", " ( ").replace(")", " ) ").split()
    pos = 0

    def rd():
        nonlocal pos
        t = toks[pos]
        pos += 1
        if t == "(":
            lst = []
            while toks[pos] != ")":
                lst.append(rd())
            pos += 1
            return lst
        if t == ")":
            raise ValueError("unbalanced")
        return t
    r = rd()
    if pos != len(toks):
        raise ValueError("trailing tokens in %r" % text)
    return r


def ev_sexp(s, v):
    if isinstance(s, str):
        if s == "true":
            return True
        if s == "false":
            return False
        if s.isdigit():
            return int(s)
        if s in v:
            return v[s]
        raise ValueError("unknown symbol %s" % s)
    if not s:
        raise ValueError("empty application")
    head = s[0]
    if isinstance(head, list):
        raise ValueError("application of a non-symbol")
    xs = [ev_sexp(x, v) for x in s[1:]]
    if head == "f":
        return fval(xs[0])
    return ev_named(head, xs)


# ------------------------------------------------------------------ the check
def check_tree(api, a, stats, fails_out):
    stats.evaluations += 1
    truth = tuple(bool(ev(a, v)) for v in VALS)
    try:
        o = api.build(a)
    except Exception as e:
        fails_out(runner.Failure("constructor-raised", a[0], "constructing %s raised %s: %s" % (show(a), type(e).__name__, e), {"type": "tree", "tree": a}))
        return None
    try:
        t_obj = tuple(bool(api.ev_obj(o, v)) for v in VALS)
    except Exception as e:
        fails_out(runner.Failure("malformed-object", a[0], "object built for %s cannot be evaluated: %s" % (show(a), e), {"type": "tree", "tree": a}))
        return o
    if t_obj != truth:
        i = [k for k in range(len(VALS)) if t_obj[k] != truth[k]][0]
        fails_out(runner.Failure("truth-value-changed", a[0] + "/" + top_of(a), "%s constructed as %s: differs under %s" % (show(a), api.shape(o), VALS[i]),
                                 {"type": "tree", "tree": a}))
    try:
        text = api.translate(o)
        t_txt = tuple(bool(ev_sexp(parse_sexp(text), v)) for v in VALS)
        if t_txt != truth and t_obj == truth:
            fails_out(runner.Failure("text-differs", a[0], "%s printed as %r which evaluates differently" % (show(a), text), {"type": "tree", "tree": a}))
    except Exception as e:
        fails_out(runner.Failure("text-unreadable", a[0], "%s printed as unreadable text: %s" % (show(a), e), {"type": "tree", "tree": a}))
    if api.shape(o) != api.shape_literal(a) if hasattr(api, "shape_literal") else False:
        pass
    if literal_shape(a) != api.shape(o):
        stats.nontrivial.add(runner.jhash(a))
        stats.classes["simplified on construction"] += 1
        if len(stats.samples) < 6:
            stats.sample({"formula": show(a), "constructed": api.shape(o)})
    else:
        stats.classes["constructed literally"] += 1
    return o


def top_of(a):
    return ",".join(x[0] for x in a[1:] if isinstance(x, tuple))[:30]


def literal_shape(a):
    k = a[0]
    if k in ("b", "i"):
        return a[1]
    if k == "T":
        return "True"
    if k == "F":
        return "False"
    if k == "n":
        return repr(a[1])
    if k == "f":
        return "f(" + literal_shape(a[1]) + ")"
    name = {"=b": "=", "=i": "=", "=x": "="}.get(k, k)
    return name + "(" + ",".join(literal_shape(x) for x in a[1:]) + ")"


def max_arity(o):
    args = getattr(o, "arguments", None)
    if not args:
        return 0
    return max([len(args)] + [max_arity(x) for x in args])


def check_eq_pair(api, a, b, oa, ob, stats, fails_out):
    """structural equality implies equal truth value"""
    if max_arity(oa) > 7 or max_arity(ob) > 7:
        # the tool compares commutative connectors by trying the permutations of their arguments: beyond 7 arguments a single
        # comparison takes minutes, which says nothing about the property (and real encodings compare small formulas)
        stats.classes["== not evaluated (connector with more than 7 arguments)"] += 1
        return
    try:
        same = (oa == ob)
    except Exception as e:
        fails_out(runner.Failure("eq-raised", a[0], "comparing %s with %s raised %s" % (show(a), show(b), e), {"type": "pair", "a": a, "b": b}))
        return
    if same is True:
        stats.classes["== pairs"] += 1
        ta = tuple(bool(ev(a, v)) for v in VALS)
        tb = tuple(bool(ev(b, v)) for v in VALS)
        if ta != tb:
            fails_out(runner.Failure("equal-but-different-truth", a[0] + "~" + b[0], "%s == %s but their truth tables differ" % (show(a), show(b)),
                                     {"type": "pair", "a": a, "b": b}))


INT_TERMS = [("i", "x"), ("i", "y"), ("n", 0), ("n", 1), ("n", 2), ("f", ("i", "x")), ("f", ("n", 1))]


def atomic_formulas(full):
    out = [("b", "p"), ("b", "q"), ("T",), ("F",)]
    terms = INT_TERMS if full else INT_TERMS[:5]
    for t1 in terms:
        for t2 in terms:
            out.append(("=i", t1, t2))
            if full or (t1[0] == "i" or t2[0] == "i"):
                out.append(("<", t1, t2))
                out.append(("<=", t1, t2))
            out.append(("distinct", t1, t2))
    for b in (("T",), ("F",)):
        for n in range(4):
            out.append(("=x", b, ("n", n)))
            out.append(("=x", ("n", n), b))
    out.append(("distinct", ("i", "x"), ("i", "y"), ("n", 1)))
    return out


def level_sets(tier):
    B0 = [("b", "p"), ("b", "q"), ("T",), ("F",), ("=i", ("i", "x"), ("i", "y")), ("<=", ("n", 1), ("i", "x"))]
    if tier != "quick":
        B0 += [("=i", ("i", "x"), ("i", "x")), ("<", ("i", "x"), ("i", "y")), ("distinct", ("i", "x"), ("i", "y")), ("=i", ("n", 1), ("n", 1)), ("=i", ("f", ("i", "x")), ("i", "y"))]
    return B0


def depth1(B0):
    out = []
    for a in B0:
        out.append(("not", a))
    for op in ("and", "or", "=>", "=b"):
        for a in B0:
            for b in B0:
                out.append((op, a, b))
    return out


def shard_exhaustive(tier, part, nparts):
    hermetic.setup_repo()
    api = Api()
    stats = runner.Stats()
    fails = []
    B0 = level_sets(tier)
    D1 = depth1(B0)
    objs = {}
    work = []
    if part == 0:
        work += atomic_formulas(True) + D1
        for op in ("and", "or"):
            for a, b, c in itertools.product(B0, repeat=3):
                work.append((op, a, b, c))
    base = B0 + D1
    # depth 2: binary connectors over base x base, unary over base; sliced round-robin
    idx = 0
    for a in base:
        if idx % nparts == part:
            work.append(("not", a))
        idx += 1
    for op in ("and", "or", "=>", "=b"):
        for a in base:
            idx += 1
            if idx % nparts != part:
                continue
            for b in base:
                work.append((op, a, b))
    for a in work:
        o = check_tree(api, a, stats, stats.fail)
        # equality pairs: argument swap of binary connectors
        if o is not None and a[0] in ("and", "or", "=>", "=b", "=i", "<", "<=", "distinct") and len(a) == 3 and (stats.evaluations % 7 == 0):
            b = (a[0], a[2], a[1])
            try:
                ob = api.build(b)
            except Exception:
                continue
            check_eq_pair(api, a, b, o, ob, stats, stats.fail)
    stats.notes["exhaustive-trees"] = len(work)
    return stats


def tree_strategy():
    ints = st.sampled_from(INT_TERMS)
    atoms = st.one_of(st.sampled_from([("b", "p"), ("b", "q"), ("T",), ("F",)]),
                      st.builds(lambda k, a, b: (k, a, b), st.sampled_from(["=i", "<", "<=", "distinct"]), ints, ints),
                      st.builds(lambda a, b, c: ("distinct", a, b, c), ints, ints, ints))

    def ext(ch):
        return st.one_of(
            st.builds(lambda a: ("not", a), ch),
            st.builds(lambda k, a, b: (k, a, b), st.sampled_from(["and", "or", "=>", "=b"]), ch, ch),
            st.builds(lambda k, xs: (k,) + tuple(xs), st.sampled_from(["and", "or"]), st.lists(ch, min_size=1, max_size=5)))
    return st.recursive(atoms, ext, max_leaves=12)


def shard_random(n, sd):
    hermetic.setup_repo()
    api = Api()
    stats = runner.Stats()

    @seed(sd)
    @settings(max_examples=n, database=None, deadline=None, phases=(Phase.generate,),
              suppress_health_check=list(HealthCheck), report_multiple_bugs=False)
    @given(tree_strategy(), tree_strategy(), st.integers(0, 2 ** 16))
    def prop(a, b, s):
        oa = check_tree(api, a, stats, stats.fail)
        rng = random.Random(s)
        # a structurally related partner: permute the arguments of the top connector / swap its name
        if oa is not None and len(a) >= 3:
            args = list(a[1:])
            rng.shuffle(args)
            name = a[0] if rng.random() < 0.7 or a[0] not in ("and", "or") else ("or" if a[0] == "and" else "and")
            c = (name,) + tuple(args)
            try:
                oc = api.build(c)
                check_eq_pair(api, a, c, oa, oc, stats, stats.fail)
            except Exception:
                pass
        ob = check_tree(api, b, stats, stats.fail)
        if oa is not None and ob is not None:
            check_eq_pair(api, a, b, oa, ob, stats, stats.fail)
    prop()
    return stats


def tup(x):
    return tuple(tup(y) for y in x) if isinstance(x, list) else x


def replay_case(case, stats=None):
    hermetic.setup_repo()
    stats = stats or runner.Stats()
    api = Api()
    out = []
    if case["type"] == "tree":
        check_tree(api, tup(case["tree"]), stats, out.append)
    elif case["type"] == "trees":
        for t in case["trees"]:
            check_tree(api, tup(t), stats, out.append)
    else:
        a, b = tup(case["a"]), tup(case["b"])
        check_eq_pair(api, a, b, api.build(a), api.build(b), stats, out.append)
    return out


def shrink(f):
    """replace sub-trees by atoms while the same kind of failure persists"""
    if f.case["type"] != "tree":
        return f
    best = tup(f.case["tree"])
    bestf = f

    def fails(t):
        for x in replay_case({"type": "tree", "tree": t}):
            if x.kind == f.kind:
                return x
        return None

    def subtrees(t, path=()):
        yield path, t
        for i, c in enumerate(t[1:], 1):
            if isinstance(c, tuple):
                yield from subtrees(c, path + (i,))

    def replace(t, path, new):
        if not path:
            return new
        l = list(t)
        l[path[0]] = replace(t[path[0]], path[1:], new)
        return tuple(l)
    changed = True
    t0 = time.time()
    while changed and time.time() - t0 < 10:
        changed = False
        for path, sub in list(subtrees(best)):
            for c in sub[1:]:
                if isinstance(c, tuple) and c[0] in ("and", "or", "not", "=>", "=b", "b", "T", "F") and sub[0] in ("and", "or", "not", "=>", "=b"):
                    cand = replace(best, path, c)
                    x = fails(cand)
                    if x:
                        best, bestf, changed = cand, x, True
                        break
            if changed:
                break
    return bestf


def _dispatch(fn, a):
    return fn(*a)


def main(tier, seed_):
    t0 = time.time()
    hermetic.setup_repo()
    stats = runner.Stats()
    for path in runner.replay_files(ID):
        for f in replay_case(json.load(open(path))["case"], stats):
            stats.fail(f)
    n = 24000 if tier == "quick" else 600000
    per = max(1, n // runner.NPROC)
    jobs = [(shard_exhaustive, (tier, i, runner.NPROC)) for i in range(runner.NPROC)]
    jobs += [(shard_random, (per, runner.shard_seed(seed_, i, "c18"))) for i in range(runner.NPROC)]
    res = runner.run_shards(_dispatch, jobs)
    stats.merge(runner.merge_stats(res))
    return runner.conclude(ID, tier, seed_, stats, RULE, ASSUME, t0, exhaustive=False,
                           extra_cov={"depth_le_2_exhaustive": True, "exhaustive_trees": stats.notes.get("exhaustive-trees", 0)},
                           shrink=shrink)
