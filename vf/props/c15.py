"""C15 -- parsing and serialization round-trip."""
import glob
import json
import os
import random
import time
from hypothesis import given, settings, seed, strategies as st, HealthCheck, Phase

from .. import evm, asm, hermetic, runner, pipeline, gen, docs

ID = "C15"
RULE = ("(a) documents: all shipped solc outputs (quick: the 8 smallest) and synthetic documents (contracts without asm, nested "
        ".data with .auxdata, string-valued data entries, sourceList, jumpType, modifierDepth, PUSHLIB/PUSHIMMUTABLE/"
        "ASSIGNIMMUTABLE items, generated blocks) must satisfy to_json(parse(D)) == D as JSON values, modulo the documented PUSH0 "
        "spelling when PUSH0 is enabled; (b) blocks: parse_plain(to_plain(B)) and parse_plain(to_plain_with_byte_number(B)) must "
        "give back B's (name, value) sequence (tags excepted for to_plain, which documents their omission); (c) spellings: every "
        "textual spelling of a constant (PUSHn 0x.., PUSHn decimal, PUSH hex, leading zeros, upper/lower case, wider n, PUSH0) must "
        "parse to the intended value (own parser as reference); non-trivial = document with an optional field / pseudo-push / "
        "nested data, block with a PUSH or pseudo-push, spelling other than canonical; distinct by content hash")
ASSUME = ["own JSON comparison; own plain-text reader vf/asm.py as reference for numeric values"]


# ------------------------------------------------------------------ child functions
def roundtrip_doc(text, push0, single):
    import global_params.constants as constants
    from sfs_generator.parser_asm import parse_asm, parse_json_asm
    constants._set_push0(push0)
    with open("rt_in.json", "w") as f:
        f.write(text)
    if single:
        return parse_json_asm("rt_in.json").to_asm_json()
    return parse_asm("rt_in.json").to_json()


def roundtrip_block(items, push0):
    import global_params.constants as constants
    from sfs_generator.parser_asm import parse_blocks_from_plain_instructions
    constants._set_push0(push0)
    out = []
    for b in hermetic.build_blocks(items):
        d = {"orig": [(i.disasm, i.value) for i in b.instructions]}
        for fmt in ("to_plain", "to_plain_with_byte_number"):
            text = getattr(b, fmt)()
            d[fmt] = text
            try:
                bs = parse_blocks_from_plain_instructions(text)
                d[fmt + "_back"] = [[(i.disasm, i.value) for i in x.instructions] for x in bs]
            except BaseException as e:  # noqa
                d[fmt + "_error"] = "%s: %s" % (type(e).__name__, str(e)[:160])
        out.append(d)
    return out


def parse_spelling(text, push0):
    import global_params.constants as constants
    from sfs_generator.parser_asm import parse_blocks_from_plain_instructions
    constants._set_push0(push0)
    bs = parse_blocks_from_plain_instructions(text)
    return [(i.disasm, i.value) for b in bs for i in b.instructions]


# ------------------------------------------------------------------ oracles
def norm_push0(x):
    """documented spelling: {"name":"PUSH","value":"0"} <-> {"name":"PUSH0"}"""
    if isinstance(x, dict):
        if x.get("name") == "PUSH0" and "value" not in x:
            y = dict(x)
            y["name"] = "PUSH"
            y["value"] = "0"
            return {k: norm_push0(v) for k, v in y.items()}
        return {k: norm_push0(v) for k, v in x.items()}
    if isinstance(x, list):
        return [norm_push0(v) for v in x]
    return x


def json_diff(a, b, path="$"):
    if type(a) != type(b):
        return "%s: %s vs %s" % (path, type(a).__name__, type(b).__name__)
    if isinstance(a, dict):
        for k in a:
            if k not in b:
                return "%s: key %r lost" % (path, k)
        for k in b:
            if k not in a:
                return "%s: key %r invented" % (path, k)
        if list(a.keys()) != list(b.keys()) and path.count(".") < 2:
            pass
        for k in a:
            d = json_diff(a[k], b[k], path + "." + str(k))
            if d:
                return d
        return None
    if isinstance(a, list):
        if len(a) != len(b):
            return "%s: list length %d vs %d" % (path, len(a), len(b))
        for i, (x, y) in enumerate(zip(a, b)):
            d = json_diff(x, y, "%s[%d]" % (path, i))
            if d:
                return d
        return None
    return None if a == b else "%s: %r vs %r" % (path, a, b)


def check_doc(doc, push0, stats, label, single=False):
    fails = []
    text = json.dumps(doc)
    r = pipeline.gasol(roundtrip_doc, text, push0, single, cpu=120)
    stats.evaluations += 1
    if r.kind == "timeout":
        stats.inconclusive += 1               # wall-clock limit of the harness: machine load, not the tool
        return fails
    if r.kind != "ok":
        cul = r.info[0] if r.kind == "exc" else r.kind
        fails.append(runner.Failure("parse-raised", str(cul), "parsing/serializing %s raised %s" % (label, str(r.info)[:300]),
                                    {"type": "doc", "doc": doc if len(text) < 20000 else None, "file": label, "push0": push0, "single": single}))
        return fails
    out = r.value
    a, b = doc, out
    if push0:
        a, b = norm_push0(doc), norm_push0(out)
    d = json_diff(a, b)
    if d:
        where = d.split(":")[0]
        key = d.split(":", 1)[1].strip()[:40] if ":" in d else d
        fails.append(runner.Failure("document-roundtrip", _field_of(d), "%s (push0=%s): %s" % (label, push0, d),
                                    {"type": "doc", "doc": doc if len(text) < 20000 else None, "file": label, "push0": push0, "single": single}))
    return fails


def _field_of(d):
    import re
    m = re.search(r"key '([^']+)'", d)
    if m:
        return "field " + m.group(1)
    m = re.search(r"\.([A-Za-z]+): ", d)
    return "value " + (m.group(1) if m else "?")


def check_block(instrs, push0, stats, label):
    fails = []
    items = asm.instrs_to_items(instrs)
    r = pipeline.gasol(roundtrip_block, items, push0, cpu=30)
    if r.kind != "ok":
        stats.classes["child-" + r.kind] += 1
        return fails
    for d in r.value:
        stats.evaluations += 1
        orig = [tuple(x) for x in d["orig"]]
        if any(n.startswith("PUSH") for n, _ in orig):
            stats.nontrivial.add(runner.jhash([orig, push0]))
        for fmt in ("to_plain", "to_plain_with_byte_number"):
            if fmt + "_error" in d:
                fails.append(runner.Failure("text-roundtrip-raised", fmt + ":" + _kinds(orig), "%s of `%s` = %r cannot be parsed back: %s" % (fmt, asm.instrs_to_plain(instrs), d[fmt], d[fmt + "_error"]),
                                            {"type": "block", "blocks": [asm.instrs_to_plain(instrs)], "push0": push0, "fmt": fmt}))
                continue
            back = [tuple(x) for b in d[fmt + "_back"] for x in b]
            want = orig
            if fmt == "to_plain":
                want = [x for x in orig if x[0] != "tag"]
            if _norm_seq(back) != _norm_seq(want):
                fails.append(runner.Failure("text-roundtrip", fmt + ":" + _first_diff_kind(_norm_seq(want), _norm_seq(back)),
                                            "%s of `%s` = %r reads back as %s" % (fmt, asm.instrs_to_plain(instrs), d[fmt][:200], back[:12]),
                                            {"type": "block", "blocks": [asm.instrs_to_plain(instrs)], "push0": push0, "fmt": fmt}))
    return fails


def _kinds(seq):
    return "/".join(sorted(set(n for n, _ in seq if n.startswith("PUSH") and n != "PUSH" or n in ("tag", "ASSIGNIMMUTABLE"))))[:60] or "plain"


def _norm_seq(seq):
    out = []
    for n, v in seq:
        if n == "PUSH0":
            n, v = "PUSH", "0"
        if n == "PUSH" and v is not None:
            try:
                v = "%x" % int(str(v), 16)
            except ValueError:
                pass
        elif v is not None and n in asm.VALUE_KINDS:
            k = evm.pseudo_key(n, str(v))
            v = k
        out.append((n, v))
    return out


def _first_diff_kind(a, b):
    for x, y in zip(a, b):
        if x != y:
            return x[0]
    return "length"


SPELL = ["canon", "pushn_hex", "pushn_dec", "pushn_hex_upper", "pushn_wide", "push_0x", "push_lead0", "push_upper", "push0_mnemonic"]


def spell(c, how):
    n = max(1, (c.bit_length() + 7) // 8)
    if how == "canon":
        return "PUSH %x" % c
    if how == "pushn_hex":
        return "PUSH%d 0x%x" % (n, c)
    if how == "pushn_dec":
        return "PUSH%d %d" % (n, c)
    if how == "pushn_hex_upper":
        return "PUSH%d 0x%X" % (n, c)
    if how == "pushn_wide":
        return "PUSH%d 0x%0*x" % (min(32, n + 3), 2 * min(32, n + 3), c)
    if how == "push_0x":
        return "PUSH 0x%x" % c
    if how == "push_lead0":
        return "PUSH 000%x" % c
    if how == "push_upper":
        return "PUSH %X" % c
    if how == "push0_mnemonic":
        return "PUSH0" if c == 0 else "PUSH %x" % c
    raise ValueError(how)


def check_spelling(c, how, push0, stats):
    fails = []
    text = spell(c, how) + " POP"
    r = pipeline.gasol(parse_spelling, text, push0, cpu=20)
    stats.evaluations += 1
    if how != "canon":
        stats.nontrivial.add(runner.jhash([c, how, push0]))
    stats.classes["spelling " + how] += 1
    if r.kind == "timeout":
        stats.inconclusive += 1
        return fails
    if r.kind != "ok":
        fails.append(runner.Failure("spelling-raised", how, "parsing %r raised %s" % (text, str(r.info)[:200]), {"type": "spelling", "c": c, "how": how, "push0": push0}))
        return fails
    seq = r.value
    got = None
    if seq and seq[0][0] == "PUSH0":
        got = 0
    elif seq and seq[0][0] == "PUSH":
        try:
            got = int(seq[0][1], 16)
        except Exception:
            got = None
    if seq and seq[0][0] == "PUSH0" and not push0:
        # with PUSH0 disabled a zero is the constant PUSH 0 however it was written (the reader's own comment: "interpreted as
        # one form or the other depending on the flag"); a PUSH0 item would be priced and emitted as PUSH0 downstream
        fails.append(runner.Failure("spelling-item", how, "%r read as a PUSH0 item although PUSH0 is disabled: %s" % (text, seq),
                                    {"type": "spelling", "c": c, "how": how, "push0": push0}))
    if got != c or len(seq) != 2 or seq[1][0] != "POP":
        fails.append(runner.Failure("spelling-value", how, "%r parsed as %s (expected the constant %#x followed by POP)" % (text, seq, c),
                                    {"type": "spelling", "c": c, "how": how, "push0": push0}))
    return fails


# ------------------------------------------------------------------ synthetic documents
@st.composite
def synthetic_doc(draw):
    nb = draw(st.integers(1, 4))
    init = [draw(gen.block(max_len=8)) for _ in range(draw(st.integers(1, 2)))]
    run = [draw(st.one_of(gen.block(max_len=10), gen.corpus_block(mutate=False), gen.operand_split_block())) for _ in range(nb)]
    extra = {}
    if draw(st.booleans()):
        extra["lib/x.sol:Iface"] = {}
    data_extra = None
    if draw(st.booleans()):
        data_extra = {"A5": "deadbeef", "974D1B4421DA69CC60B481194F0DAD36A5BB4E23DA810DA7A7FB30CDBA178330": "00ff"}
    doc = docs.make_document(init, run, extra_contracts=extra, source_list=draw(st.booleans()), data_extra=data_extra)
    c = doc["contracts"]["t.sol:C"]["asm"]
    # optional fields
    for code in (c[".code"], c[".data"]["0"][".code"]):
        for it in code:
            if it["name"] == "JUMP" and draw(st.booleans()):
                it["jumpType"] = draw(st.sampled_from(["[in]", "[out]"]))
            elif it["name"] == "JUMP" and draw(st.booleans()):
                it["value"] = draw(st.sampled_from(["[in]", "[out]"]))
            if draw(st.integers(0, 3)) == 0:
                it["modifierDepth"] = draw(st.integers(1, 3))
    if draw(st.booleans()):
        # nested sub-assembly inside the runtime data
        c[".data"]["0"].setdefault(".data", {})["1"] = {".auxdata": docs.AUX, ".code": docs.stream([draw(gen.block(max_len=6))], start=500000)}
    if draw(st.booleans()):
        c[".data"]["ABCDEF0123"] = "60806040"          # string-valued data entry
    return doc


def shard_docs(files, sd):
    hermetic.setup_repo()
    stats = runner.Stats()
    for f in files:
        doc = json.load(open(f))
        for push0 in (False, True):
            fs = check_doc(doc, push0, stats, os.path.basename(f))
            stats.nontrivial.add(runner.jhash([os.path.basename(f), push0]))
            for x in pipeline.confirmed(fs, lambda: check_doc(doc, push0, runner.Stats(), os.path.basename(f)), stats):
                stats.fail(x)
    return stats


def shard_random(n, sd):
    hermetic.setup_repo()
    stats = runner.Stats()

    @seed(sd)
    @settings(max_examples=n, database=None, deadline=None, phases=(Phase.generate,),
              suppress_health_check=list(HealthCheck), report_multiple_bugs=False)
    @given(synthetic_doc(), st.booleans(), st.one_of(gen.block(max_len=14), gen.corpus_block(mutate=False)), st.booleans(),
           st.one_of(gen.const(), st.integers(0, 2 ** 256 - 1)), st.sampled_from(SPELL), st.booleans())
    def prop(doc, p0, blk, p0b, c, how, p0c):
        fs = check_doc(doc, p0, stats, "synthetic")
        stats.nontrivial.add(runner.jhash([doc, p0]))
        stats.classes["synthetic document"] += 1
        if len(stats.samples) < 2:
            stats.sample({"synthetic_document_contracts": list(doc["contracts"]), "data_keys": list(doc["contracts"]["t.sol:C"]["asm"][".data"])})
        fs += check_block(blk, p0b, stats, "random")
        fs += check_spelling(c, how, p0c, stats)
        if fs:
            for x in pipeline.confirmed(fs, lambda: _redo(fs), stats):
                stats.fail(x)
    prop()
    return stats


def _redo(fs):
    out = []
    for f in fs:
        out += replay_case(f.case)
    return out


def replay_case(case, stats=None):
    stats = stats or runner.Stats()
    t = case["type"]
    if t == "doc":
        doc = case.get("doc")
        if doc is None:
            cands = [f for f in gen.corpus_files() if os.path.basename(f) == case.get("file")]
            if not cands:
                return []
            doc = json.load(open(cands[0]))
        return check_doc(doc, case["push0"], stats, case.get("file", "replay"), case.get("single", False))
    if t == "block":
        out = []
        for text in case["blocks"]:
            for p0 in ([case["push0"]] if "push0" in case else [False, True]):
                out += [f for f in check_block(asm.parse_plain(text), p0, stats, "replay") if "fmt" not in case or f.case.get("fmt") == case["fmt"]]
        return out
    if t == "spelling":
        return check_spelling(int(case["c"]), case["how"], case["push0"], stats)
    if t == "spellings":
        out = []
        for c in case["values"]:
            for how in SPELL:
                for p0 in (False, True):
                    out += check_spelling(int(c, 16) if isinstance(c, str) else c, how, p0, stats)
        return out
    return []


def shrink(f):
    if f.case["type"] != "block":
        return f
    from ..shrink import shrink_block
    instrs = asm.parse_plain(f.case["blocks"][0])

    def still(cand):
        for x in check_block(cand, f.case["push0"], runner.Stats(), "shrink"):
            if x.bucket == f.bucket:
                return x
        return None
    return shrink_block(instrs, still, budget_s=10) or f


def _dispatch(fn, a):
    return fn(*a)


BOUNDARY_CONSTANTS = [0, 1, 9, 10, 15, 16, 0xFF, 0x100, 0xFFFF, 0x10000, (1 << 160) - 1, 1 << 255, (1 << 256) - 1]


def shard_spellings(cases, sd):
    """every spelling x boundary constant x PUSH0 setting (deterministic sweep)"""
    hermetic.setup_repo()
    stats = runner.Stats()
    for c, how, p0 in cases:
        fs = check_spelling(c, how, p0, stats)
        if fs:
            for x in pipeline.confirmed(fs, lambda: _redo(fs), stats):
                stats.fail(x)
    return stats


def main(tier, seed_):
    t0 = time.time()
    hermetic.setup_repo()
    stats = runner.Stats()
    with pipeline.isolated():
        for path in runner.replay_files(ID):
            for f in replay_case(json.load(open(path))["case"], stats):
                stats.fail(f)
    files = sorted(gen.corpus_files(), key=lambda f: os.path.getsize(f))
    if tier == "quick":
        files = files[:8]
    n = 1600 if tier == "quick" else 60000
    per = max(1, n // runner.NPROC)
    jobs = [(shard_docs, (ch, 0)) for ch in runner.chunks(files, runner.NPROC) if ch]
    jobs += [(shard_random, (per, runner.shard_seed(seed_, i, "c15"))) for i in range(runner.NPROC)]
    sweep = [(c, how, p0) for c in BOUNDARY_CONSTANTS for how in SPELL for p0 in (True, False)]
    jobs += [(shard_spellings, (ch, 0)) for ch in runner.chunks(sweep, runner.NPROC) if ch]
    res = runner.run_shards(_dispatch, jobs)
    stats.merge(runner.merge_stats(res))
    return runner.conclude(ID, tier, seed_, stats, RULE, ASSUME, t0, exhaustive=False,
                           extra_cov={"shipped_documents": len(files)}, shrink=shrink)
