"""C10 -- every block is processed to completion; a failure costs at most that block."""
import json
import random
import time
from hypothesis import given, settings, seed, strategies as st, HealthCheck, Phase

from .. import evm, asm, hermetic, runner, pipeline, gen, docs, options, docrun, catalogue

ID = "C10"
B = evm.M256
RULE = ("contracts of 3-6 blocks with a hostile-constant profile (operands 0 and 2^256-1 for DIV/SDIV/MOD/SMOD/ADDMOD/MULMOD/EXP/"
        "shifts/SIGNEXTEND/BYTE, NOT NOT, ISZERO chains of length 2-9, 17+ live values, 30-60 instruction blocks, rule-catalogue "
        "templates) x option sets; each contract runs through the real CLI entry in a FORKED child with RLIMIT_CPU = 20 s + 0.5 s per "
        "instruction and RLIMIT_AS = 4 GB: violation if an exception escapes, the child is killed by a limit (re-run alone before it is "
        "reported), or no output file results; containment by fault injection: the front-end is made to raise for one chosen block, "
        "the output must exist and differ from the fault-free output only at that block, which must equal its input; "
        "non-trivial = contract containing >= 1 hostile constant/idiom or an injected fault; distinct by (contract, options)")
ASSUME = ["budgets are CPU time (not wall time), >= 1000x the measured median of 10 ms per block",
          "fault injection wraps sfs_generator.ir_block.evm2rbr_compiler inside the harness child (no source change)"]
HOSTILE_CONSTS = [0, 1, B - 1, 1 << 255, 256, 255, 2]
HOSTILE_OPS = ["DIV", "SDIV", "MOD", "SMOD", "EXP", "SHL", "SHR", "SAR", "SIGNEXTEND", "BYTE", "ADDMOD", "MULMOD"]


@st.composite
def hostile_block(draw):
    kind = draw(st.integers(0, 9))
    if kind == 9 and draw(st.integers(0, 3)) == 0:
        # a term DAG with heavy sharing: x, 2x, 4x, ... (every level reuses the previous one twice)
        # depth capped at 13: from ~16 on the analysis exceeds every budget (known finding recursion:search_for_value_aux,
        # witness replays/C10/shared_dag.json); the cap excludes it by construction so that the search goes on
        n = draw(st.integers(6, 13))
        op = draw(st.sampled_from(["ADD", "MUL", "AND", "SUB", "XOR"]))
        return [(draw(st.sampled_from(["CALLVALUE", "CALLER", "DUP1"])), None)] + [("DUP1", None), (op, None)] * n + \
            draw(st.sampled_from([[], [("PUSH", 1), ("SSTORE", None)], [("POP", None)]]))
    if kind <= 3:
        b = draw(gen.block(max_len=14, profile=gen.ARITH_PROFILE))
        for _ in range(draw(st.integers(1, 3))):
            op = draw(st.sampled_from(HOSTILE_OPS))
            n = 3 if op in ("ADDMOD", "MULMOD") else 2
            form = draw(st.integers(0, 2))
            snip = []
            if form == 0:
                snip = [("PUSH", draw(st.sampled_from(HOSTILE_CONSTS))) for _ in range(n)] + [(op, None)]
            elif form == 1:
                snip = [("PUSH", draw(st.sampled_from(HOSTILE_CONSTS))) for _ in range(n - 1)] + [("DUP%d" % n, None), (op, None)]
            else:
                snip = [("DUP1", None)] * (n - 1) + [("PUSH", draw(st.sampled_from(HOSTILE_CONSTS))), (op, None)]
            pos = draw(st.integers(0, len(b)))
            while pos < len(b) and b[pos][0] in asm.BLOCK_BEGIN:
                pos += 1
            while pos > 0 and b[pos - 1][0] in asm.BLOCK_END:
                pos -= 1
            b[pos:pos] = snip
        return b
    if kind == 4:
        n = draw(st.integers(2, 9))
        pre = draw(st.sampled_from([[], [("PUSH", 3)], [("DUP1", None)], [("PUSH", 0)], [("DUP2", None), ("DUP2", None), ("LT", None)]]))
        u = draw(st.sampled_from(["ISZERO", "NOT"]))
        return pre + [(u, None)] * n + draw(st.sampled_from([[], [("POP", None)], [("PUSH", 1), ("EQ", None)]]))
    if kind == 5:
        return draw(gen.body(min_len=20, max_len=40, profile=dict(gen.DEFAULT_PROFILE, dup=30, swap=24, push=14, pop=2), max_need=16))
    if kind == 6:
        return draw(gen.block(min_len=30, max_len=60, profile=gen.DEFAULT_PROFILE))
    if kind == 7:
        return draw(gen.corpus_block())
    if kind == 8:
        return draw(gen.block(max_len=26, profile=gen.SPLIT_PROFILE))
    return draw(gen.block(max_len=20, profile=gen.MEM_PROFILE))


def run_with_fault(argv, inputs, want, fault_block):
    """(child) like hermetic.gasol_main but the front-end raises for one block name"""
    import sfs_generator.ir_block as ir_block
    import gasol_asm
    orig = ir_block.evm2rbr_compiler
    hits = []

    def wrapped(*a, **kw):
        name = kw.get("block_name", "")
        if name == fault_block or name == "alreadyOptimized_" + fault_block:
            hits.append(name)
            raise Exception("injected analysis failure", 4)
        return orig(*a, **kw)
    ir_block.evm2rbr_compiler = wrapped
    try:
        res = hermetic.gasol_main(argv, inputs, want)
    finally:
        ir_block.evm2rbr_compiler = orig
    res["fault_hits"] = hits
    return res


def limits(blocks):
    n = sum(len(b) for b in blocks)
    return 20 + 0.5 * n


def run_doc(doc, argv, cpu, fault=None, forked=False):
    """forked=True: fresh child under RLIMIT_CPU/RLIMIT_AS (the deciding run for limit hits and for
    every reported failure); otherwise in this process with a soft CPU-budget timer (forking is the
    scarce resource on this machine: forked children are serialized by the hypervisor)"""
    full = ["in.json_solc"] + list(argv) + ["-csv", "seq.csv", "-block-csv", "blocks.csv", "-dest-log", "out.log"]
    inputs = {"in.json_solc": json.dumps(doc)}
    if forked or pipeline.ISOLATED:
        if fault is None:
            return hermetic.call(hermetic.gasol_main, full, inputs, [docrun.OUT], cpu=cpu, mem_gb=4)
        return hermetic.call(run_with_fault, full, inputs, [docrun.OUT], fault, cpu=cpu, mem_gb=4)
    if fault is None:
        return hermetic.local(hermetic.gasol_main, full, inputs, [docrun.OUT], timeout=cpu)
    return hermetic.local(run_with_fault, full, inputs, [docrun.OUT], fault, timeout=cpu)


def innermost_repo_frame(exc):
    if not exc:
        return "?"
    typ, msg, frames = exc
    fr = [f for f in frames if f[0].startswith(hermetic.REPO)]
    if fr:
        f = fr[-1]
        return "%s@%s:%s" % (typ, f[0].replace(hermetic.REPO + "/", ""), f[2])
    return typ


def where_stuck(frames):
    """root-cause key of a budget hit: the function the tool recurses in (>= 3 times on the stack), else the innermost
    frame inside the repository"""
    fr = [f for f in frames if str(f[0]).startswith(hermetic.REPO)]
    if not fr:
        return "outside-repo"
    names = [f[2] for f in fr]
    for n in reversed(names):
        if names.count(n) >= 3:
            return "recursion:" + n
    return "in:" + names[-1]


def classify_run(r):
    """None if the run completed with an output, else (kind, culprit, detail)"""
    if r.kind == "timeout" and isinstance(r.info, tuple):
        return ("killed-by-limit", where_stuck(r.info[1]), "%s; stack: %s" % (r.info[0], " > ".join(f[2] for f in r.info[1][-6:])))
    if r.kind == "killed":
        return ("killed-by-limit", r.info, "child killed: %s (cpu %.1fs)" % (r.info, r.cpu_s))
    if r.kind == "timeout":
        # the wall-clock watchdog of a child that did not use up its CPU budget says something about the machine
        # (load), nothing about the tool: inconclusive, never a violation
        return ("inconclusive", "wall", "wall-clock watchdog")
    if r.kind == "exc":
        return ("exception-escaped", innermost_repo_frame(r.info), "exception escaped: %s" % (r.info[:2],))
    v = r.value
    if v["exc"] is not None:
        return ("exception-escaped", innermost_repo_frame(v["exc"]), "exception escaped the run: %s: %s" % (v["exc"][0], v["exc"][1][:160]))
    if docrun.OUT not in v["files"]:
        return ("no-output", "exit=%s" % v["exit"], "the run ended (exit %s) without writing the output file" % v["exit"])
    return None


def check_document(blocks, argv, stats, label, with_fault=None):
    fails = []
    doc = docs.make_document([[("PUSH", 0x80), ("PUSH", 0x40), ("MSTORE", None), ("STOP", None)]], blocks)
    cpu = limits(blocks)
    lab = options.label(argv)
    case = {"type": "doc", "blocks": [asm.instrs_to_plain(b) for b in blocks], "argv": list(argv), "label": label}
    runner.journal(case)
    r = run_doc(doc, argv, cpu)
    stats.evaluations += 1
    stats.nontrivial.add(runner.jhash([case["blocks"], lab]))
    stats.notes["cpu_s_total"] += r.cpu_s
    bad = classify_run(r)
    if bad:
        # every failure is decided by a run in a fresh child under hard CPU/memory limits
        r = run_doc(doc, argv, cpu, forked=True)
        bad = classify_run(r)
    if bad and bad[0] == "inconclusive":
        stats.inconclusive += 1
        stats.classes["inconclusive: wall-clock watchdog before the CPU budget was used"] += 1
        return fails
    if bad:
        kind, cul, detail = bad
        fails.append(runner.Failure(kind, cul, "[%s] %s; contract blocks: %s" % (lab, detail, [x[:80] for x in case["blocks"]]), case))
        return fails
    if len(stats.samples) < 5:
        stats.sample({"options": lab, "blocks": case["blocks"][:3], "cpu_s": round(r.cpu_s, 3)})
    if with_fault is None:
        return fails
    # containment by fault injection on runtime block number with_fault
    out_ok = json.loads(r.value["files"][docrun.OUT])
    k = with_fault % max(1, len(asm.split_blocks(docs.stream(blocks))))
    fname = "C_run_code_of_0_block_%d" % k
    rf = run_doc(doc, argv, cpu, fault=fname)
    stats.evaluations += 1
    stats.classes["fault injected"] += 1
    bad = classify_run(rf)
    if bad:
        rf = run_doc(doc, argv, cpu, fault=fname, forked=True)
        bad = classify_run(rf)
    fcase = dict(case, fault=k)
    if bad and bad[0] == "inconclusive":
        stats.inconclusive += 1
        stats.classes["inconclusive: wall-clock watchdog before the CPU budget was used"] += 1
        return fails
    if bad:
        kind, cul, detail = bad
        fails.append(runner.Failure("fault-not-contained", kind, "[%s] analysis of block %s made to fail: %s" % (lab, fname, detail), fcase))
        return fails
    if not rf.value.get("fault_hits"):
        stats.classes["fault block had nothing to optimize"] += 1
        return fails
    out_f = json.loads(rf.value["files"][docrun.OUT])
    try:
        p_in = docs.aligned_blocks(doc, out_f)
        p_ok = docs.aligned_blocks(out_ok, out_f)
    except ValueError as e:
        fails.append(runner.Failure("fault-not-contained", "unalignable", "[%s] output under fault cannot be aligned: %s" % (lab, e), fcase))
        return fails
    from .c15 import norm_push0
    for (where, bi, bf), (_, bo, _) in zip(p_in, p_ok):
        bi, bf, bo = norm_push0(bi), norm_push0(bf), norm_push0(bo)
        is_fault = where.endswith(".data/0/.code #%d" % k)
        if is_fault:
            if bf != bi:
                fails.append(runner.Failure("fault-not-contained", "faulty-block-changed", "[%s] the block whose analysis failed was not emitted unchanged" % lab, fcase))
        elif bf != bo:
            fails.append(runner.Failure("fault-not-contained", "other-block-affected", "[%s] %s differs from the fault-free run although the fault was injected in block %d" % (lab, where, k), fcase))
    return fails


def shard_random(n, sd):
    hermetic.setup_repo()
    stats = runner.Stats()

    @seed(sd)
    @settings(max_examples=n, database=None, deadline=None, phases=(Phase.generate,),
              suppress_health_check=list(HealthCheck), report_multiple_bugs=False)
    @given(st.lists(hostile_block(), min_size=3, max_size=6), options.pipeline_options([options.GREEDY] * 15 + [options.UBG_Z3]),
           st.integers(0, 40), options.encoder_options())
    def prop(blocks, argv, fault, enc):
        solver = "-solver" in argv
        if solver:
            blocks = [b[:18] for b in blocks[:3]]     # solver runs are 20-50x dearer; results depend on its time-outs
            argv = argv + enc                         # Max-SMT runs also vary the encoder options
        # the containment comparison needs a deterministic back-end, so faults are only injected under -greedy
        for f in check_document(blocks, argv, stats, "random", with_fault=(fault if fault < 6 and not solver else None)):
            stats.fail(f)
    prop()
    return stats


def shard_templates(temps, sd):
    hermetic.setup_repo()
    stats = runner.Stats()
    G = 10
    argvs = options.all_pipeline_options()
    rng = random.Random(sd)
    for i in range(0, len(temps), G):
        for f in check_document([t[1] for t in temps[i:i + G]], rng.choice(argvs), stats, "catalogue"):
            stats.fail(f)
    return stats


def replay_case(case, stats=None):
    stats = stats or runner.Stats()
    blocks = [asm.parse_plain(t) for t in case["blocks"]]
    out = []
    for argv in ([case["argv"]] if "argv" in case else [["-greedy"], ["-storage", "-greedy"], ["-partition", "-size", "-greedy"]]):
        out += check_document(blocks, argv, stats, "replay", with_fault=case.get("fault"))
    return out


def shrink(f):
    """find one block of the contract that alone reproduces the failure, then ddmin it"""
    from ..shrink import shrink_block
    argv = f.case["argv"]
    fault = f.case.get("fault")
    blocks = [asm.parse_plain(t) for t in f.case["blocks"]]

    def fails_with(bs, flt=None):
        for x in check_document(bs, argv, runner.Stats(), "shrink", with_fault=flt):
            if x.kind == f.kind:
                return x
        return None
    if fault is not None:
        return f
    best = f
    for b in blocks:
        x = fails_with([b])
        if x:
            best = x

            def still(c):
                return fails_with([c])
            return shrink_block(b, still, budget_s=25) or best
    return best


def _dispatch(fn, a):
    return fn(*a)


def main(tier, seed_):
    t0 = time.time()
    hermetic.setup_repo()
    stats = runner.Stats()
    with pipeline.isolated():
        for path in runner.replay_files(ID):
            for f in replay_case(json.load(open(path))["case"], stats):
                stats.fail(f)
    n = 480 if tier == "quick" else 24000
    temps = catalogue.templates("quick")
    temps = [t for t in temps if t[0].split(":")[0] in ("fold", "chain", "ter", "un")] if tier == "quick" else temps
    per = max(1, n // runner.NPROC)
    jobs = [(shard_random, (per, runner.shard_seed(seed_, i, "c10"))) for i in range(runner.NPROC)]
    jobs += [(shard_templates, (ch, runner.shard_seed(seed_, i, "c10t"))) for i, ch in enumerate(runner.chunks(temps, runner.NPROC))]
    def on_suspect(case, why):
        # a shard hung or died: the journalled contract is re-run alone under hard limits
        st2 = runner.Stats()
        st2.notes["shards-aborted (%s)" % why[:40]] += 1
        with pipeline.isolated():
            for f in replay_case(case, st2):
                st2.fail(f)
        return st2
    res = runner.run_shards(_dispatch, jobs, stall_s=240, on_suspect=on_suspect)
    stats.merge(runner.merge_stats(res))
    return runner.conclude(ID, tier, seed_, stats, RULE, ASSUME, t0, level="fault_enumeration", exhaustive=False,
                           extra_cov={"catalogue_templates_run": len(temps)}, shrink=shrink)
