"""C10 -- every block is processed to completion; a failure costs at most that block."""
import json
import random
import time
from hypothesis import given, settings, seed, strategies as st, HealthCheck, Phase

from .. import evm, asm, hermetic, runner, pipeline, gen, docs, options, docrun, catalogue

ID = "C10"
B = evm.M256
RULE = ("contracts of 3-6 blocks with a hostile-constant profile (operands 0 and 2^256-1 for DIV/SDIV/MOD/SMOD/ADDMOD/MULMOD/EXP/"
        "shifts/SIGNEXTEND/BYTE, NOT NOT, ISZERO chains of length 2-9, 17+ live values, 30-60 instruction blocks, rule-catalogue "
        "templates) x option sets; each contract runs through the real CLI entry in a FORKED child with RLIMIT_CPU = 20 s + 0.5 s per "
        "instruction and RLIMIT_AS = 4 GB: violation if an exception escapes, the child is killed by a limit (re-run alone before it is "
        "reported), or no output file results; containment by fault enumeration: one of 24 functions of the per-block pipeline "
        "(entry of the analysis, 15 functions inside it, greedy search, re-verification, rebuild of the assembly) is made to raise on "
        "its 1st/2nd/3rd/6th call while one chosen block is processed; the output must exist and differ from the fault-free output "
        "only at that block, which must be its input, the fault-free result (failure absorbed) or at least equivalent to its input; "
        "non-trivial = contract containing >= 1 hostile constant/idiom or an injected fault; distinct by (contract, options)")
ASSUME = ["budgets are CPU time (not wall time), >= 1000x the measured median of 10 ms per block",
          "fault injection wraps functions of the tool inside the harness process (no source change); the wrapped functions are put back after every run"]
HOSTILE_CONSTS = [0, 1, B - 1, 1 << 255, 256, 255, 2]
HOSTILE_OPS = ["DIV", "SDIV", "MOD", "SMOD", "EXP", "SHL", "SHR", "SAR", "SIGNEXTEND", "BYTE", "ADDMOD", "MULMOD"]


@st.composite
def hostile_block(draw):
    kind = draw(st.integers(0, 9))
    if draw(st.integers(0, 24)) == 0:
        return draw(gen.failing_block())        # analysis fails on the pinned tree (contained): the rest of the contract must not suffer
    if kind == 9 and draw(st.integers(0, 3)) == 0:
        # a term DAG with heavy sharing: x, 2x, 4x, ... (every level reuses the previous one twice)
        # depth capped at 13: from ~16 on the analysis exceeds every budget (known finding recursion:search_for_value_aux,
        # witness replays/C10/shared_dag.json); the cap excludes it by construction so that the search goes on
        n = draw(st.integers(6, 13))
        op = draw(st.sampled_from(["ADD", "MUL", "AND", "SUB", "XOR"]))
        return [(draw(st.sampled_from(["CALLVALUE", "CALLER", "DUP1"])), None)] + [("DUP1", None), (op, None)] * n + \
            draw(st.sampled_from([[], [("PUSH", 1), ("SSTORE", None)], [("POP", None)]]))
    if kind <= 3:
        b = draw(gen.block(max_len=14, profile=gen.ARITH_PROFILE))
        for _ in range(draw(st.integers(1, 3))):
            op = draw(st.sampled_from(HOSTILE_OPS))
            n = 3 if op in ("ADDMOD", "MULMOD") else 2
            form = draw(st.integers(0, 2))
            snip = []
            if form == 0:
                snip = [("PUSH", draw(st.sampled_from(HOSTILE_CONSTS))) for _ in range(n)] + [(op, None)]
            elif form == 1:
                snip = [("PUSH", draw(st.sampled_from(HOSTILE_CONSTS))) for _ in range(n - 1)] + [("DUP%d" % n, None), (op, None)]
            else:
                snip = [("DUP1", None)] * (n - 1) + [("PUSH", draw(st.sampled_from(HOSTILE_CONSTS))), (op, None)]
            pos = draw(st.integers(0, len(b)))
            while pos < len(b) and b[pos][0] in asm.BLOCK_BEGIN:
                pos += 1
            while pos > 0 and b[pos - 1][0] in asm.BLOCK_END:
                pos -= 1
            b[pos:pos] = snip
        return b
    if kind == 4:
        n = draw(st.integers(2, 9))
        pre = draw(st.sampled_from([[], [("PUSH", 3)], [("DUP1", None)], [("PUSH", 0)], [("DUP2", None), ("DUP2", None), ("LT", None)]]))
        u = draw(st.sampled_from(["ISZERO", "NOT"]))
        return pre + [(u, None)] * n + draw(st.sampled_from([[], [("POP", None)], [("PUSH", 1), ("EQ", None)]]))
    if kind == 5:
        return draw(gen.body(min_len=20, max_len=40, profile=dict(gen.DEFAULT_PROFILE, dup=30, swap=24, push=14, pop=2), max_need=16))
    if kind == 6:
        return draw(gen.block(min_len=30, max_len=60, profile=gen.DEFAULT_PROFILE))
    if kind == 7:
        return draw(gen.corpus_block())
    if kind == 8:
        return draw(gen.block(max_len=26, profile=gen.SPLIT_PROFILE))
    return draw(gen.block(max_len=20, profile=gen.MEM_PROFILE))


# fault sites: (module, function) -- the function raises on its n-th call made while the target block is in the per-block
# pipeline (analysis, search, rebuild, re-verification).  Site 0 is the entry of the analysis itself.
FAULT_SITES = [("sfs_generator.ir_block", "evm2rbr_compiler")] + \
    [("sfs_generator.gasol_optimization", f) for f in (
        "search_for_value_aux", "rebuild_expression", "generate_json", "compute_vars", "generate_dependences", "simplify_dependences",
        "apply_transform", "translate_subblock", "is_already_defined", "get_involved_vars", "generate_storage_info", "update_unary_func",
        "apply_all_simp_rules", "apply_all_comparison", "generate_subblocks")] + \
    [("greedy.block_generation", "greedy_from_json"), ("greedy.block_generation", "needed_nostores"), ("greedy.block_generation", "sort_with_deps"),
     ("verification.sfs_verify", "verify_block_from_list_of_sfs"), ("verification.sfs_verify", "compare_variables"),
     ("verification.sfs_verify", "compare_dependences"), ("solution_generation.optimize_from_sub_blocks", "rebuild_optimized_asm_block"),
     ("solution_generation.ids2asm", "asm_from_ids")]


def run_with_fault(argv, inputs, want, fault_block, site=0, nth=1):
    """(child) like hermetic.gasol_main, but FAULT_SITES[site] raises on its nth call while block fault_block is processed"""
    import importlib
    import sys as _sys
    import sfs_generator.ir_block as ir_block
    import gasol_asm
    hits = []
    cur = [None]
    patched = []

    def patch_everywhere(obj, repl):
        for m in list(_sys.modules.values()):
            f = getattr(m, "__file__", None)
            if not f or not f.startswith(hermetic.REPO):
                continue
            for k, v in list(vars(m).items()):
                if v is obj:
                    setattr(m, k, repl)
                    patched.append((m, k, obj))

    def names(n):
        return n in (fault_block, "alreadyOptimized_" + fault_block)

    # 1. track the block the pipeline is working on
    o_opt, o_cmp, o_rbr = gasol_asm.optimize_asm_block_asm_format, gasol_asm.compare_asm_block_asm_format, ir_block.evm2rbr_compiler

    def t_opt(block, *a, **kw):
        old, cur[0] = cur[0], getattr(block, "block_name", None)
        try:
            return o_opt(block, *a, **kw)
        finally:
            cur[0] = old

    def t_cmp(old_block, *a, **kw):
        old, cur[0] = cur[0], getattr(old_block, "block_name", None)
        try:
            return o_cmp(old_block, *a, **kw)
        finally:
            cur[0] = old
    patch_everywhere(o_opt, t_opt)
    patch_everywhere(o_cmp, t_cmp)
    # 2. the faulty site
    mod, fname = FAULT_SITES[site % len(FAULT_SITES)]
    target = getattr(importlib.import_module(mod), fname)
    count = [0]

    def faulty(*a, **kw):
        active = names(cur[0]) if cur[0] is not None else False
        if fname == "evm2rbr_compiler":
            active = names(kw.get("block_name", ""))
        if active:
            count[0] += 1
            if count[0] == nth:
                hits.append(fname)
                raise Exception("injected failure in %s" % fname, 4)
        return target(*a, **kw)
    patch_everywhere(target, faulty)
    try:
        res = hermetic.gasol_main(argv, inputs, want)
    finally:
        for m, k, obj in patched:
            setattr(m, k, obj)
    res["fault_hits"] = hits
    return res


def limits(blocks):
    n = sum(len(b) for b in blocks)
    return 20 + 0.5 * n


def run_doc(doc, argv, cpu, fault=None, forked=False, site=0, nth=1):
    """forked=True: fresh child under RLIMIT_CPU/RLIMIT_AS (the deciding run for limit hits and for
    every reported failure); otherwise in this process with a soft CPU-budget timer (forking is the
    scarce resource on this machine: forked children are serialized by the hypervisor)"""
    full = ["in.json_solc"] + list(argv) + ["-csv", "seq.csv", "-block-csv", "blocks.csv", "-dest-log", "out.log"]
    inputs = {"in.json_solc": json.dumps(doc)}
    if forked or pipeline.ISOLATED:
        if fault is None:
            return hermetic.call(hermetic.gasol_main, full, inputs, [docrun.OUT], cpu=cpu, mem_gb=4)
        return hermetic.call(run_with_fault, full, inputs, [docrun.OUT], fault, site, nth, cpu=cpu, mem_gb=4)
    if fault is None:
        return hermetic.local(hermetic.gasol_main, full, inputs, [docrun.OUT], timeout=cpu)
    return hermetic.local(run_with_fault, full, inputs, [docrun.OUT], fault, site, nth, timeout=cpu)


def innermost_repo_frame(exc):
    if not exc:
        return "?"
    typ, msg, frames = exc
    fr = [f for f in frames if f[0].startswith(hermetic.REPO)]
    if fr:
        f = fr[-1]
        return "%s@%s:%s" % (typ, f[0].replace(hermetic.REPO + "/", ""), f[2])
    return typ


def where_stuck(frames):
    """root-cause key of a budget hit: the function the tool recurses in (>= 3 times on the stack), else the innermost
    frame inside the repository"""
    fr = [f for f in frames if str(f[0]).startswith(hermetic.REPO)]
    if not fr:
        return "outside-repo"
    names = [f[2] for f in fr]
    for n in reversed(names):
        if names.count(n) >= 3:
            return "recursion:" + n
    return "in:" + names[-1]


def classify_run(r):
    """None if the run completed with an output, else (kind, culprit, detail)"""
    if r.kind == "timeout" and isinstance(r.info, tuple):
        return ("killed-by-limit", where_stuck(r.info[1]), "%s; stack: %s" % (r.info[0], " > ".join(f[2] for f in r.info[1][-6:])))
    if r.kind == "killed":
        return ("killed-by-limit", r.info, "child killed: %s (cpu %.1fs)" % (r.info, r.cpu_s))
    if r.kind == "timeout":
        # the wall-clock watchdog of a child that did not use up its CPU budget says something about the machine
        # (load), nothing about the tool: inconclusive, never a violation
        return ("inconclusive", "wall", "wall-clock watchdog")
    if r.kind == "exc":
        return ("exception-escaped", innermost_repo_frame(r.info), "exception escaped: %s" % (r.info[:2],))
    v = r.value
    if v["exc"] is not None:
        return ("exception-escaped", innermost_repo_frame(v["exc"]), "exception escaped the run: %s: %s" % (v["exc"][0], v["exc"][1][:160]))
    if docrun.OUT not in v["files"]:
        return ("no-output", "exit=%s" % v["exit"], "the run ended (exit %s) without writing the output file" % v["exit"])
    return None


def check_document(blocks, argv, stats, label, with_fault=None):
    fails = []
    doc = docs.make_document([[("PUSH", 0x80), ("PUSH", 0x40), ("MSTORE", None), ("STOP", None)]], blocks)
    cpu = limits(blocks)
    lab = options.label(argv)
    case = {"type": "doc", "blocks": [asm.instrs_to_plain(b) for b in blocks], "argv": list(argv), "label": label}
    runner.journal(case)
    r = run_doc(doc, argv, cpu)
    stats.evaluations += 1
    stats.nontrivial.add(runner.jhash([case["blocks"], lab]))
    stats.notes["cpu_s_total"] += r.cpu_s
    bad = classify_run(r)
    if bad:
        # every failure is decided by a run in a fresh child under hard CPU/memory limits
        r = run_doc(doc, argv, cpu, forked=True)
        bad = classify_run(r)
    if bad and bad[0] == "inconclusive":
        stats.inconclusive += 1
        stats.classes["inconclusive: wall-clock watchdog before the CPU budget was used"] += 1
        return fails
    if bad:
        kind, cul, detail = bad
        fails.append(runner.Failure(kind, cul, "[%s] %s; contract blocks: %s" % (lab, detail, [x[:80] for x in case["blocks"]]), case))
        return fails
    if len(stats.samples) < 5:
        stats.sample({"options": lab, "blocks": case["blocks"][:3], "cpu_s": round(r.cpu_s, 3)})
    if with_fault is None:
        return fails
    # containment by fault injection on runtime block number with_fault
    out_ok = json.loads(r.value["files"][docrun.OUT])
    if isinstance(with_fault, (list, tuple)):
        with_fault, site, nth = with_fault
    else:
        site, nth = 0, 1
    site %= len(FAULT_SITES)
    k = with_fault % max(1, len(asm.split_blocks(docs.stream(blocks))))
    fname = "C_run_code_of_0_block_%d" % k
    rf = run_doc(doc, argv, cpu, fault=fname, site=site, nth=nth)
    stats.evaluations += 1
    stats.classes["fault injected"] += 1
    bad = classify_run(rf)
    if bad:
        rf = run_doc(doc, argv, cpu, fault=fname, forked=True, site=site, nth=nth)
        bad = classify_run(rf)
    fcase = dict(case, fault=[k, site, nth], fault_site="%s.%s" % FAULT_SITES[site])
    if bad and bad[0] == "inconclusive":
        stats.inconclusive += 1
        stats.classes["inconclusive: wall-clock watchdog before the CPU budget was used"] += 1
        return fails
    if bad:
        kind, cul, detail = bad
        fails.append(runner.Failure("fault-not-contained", kind, "[%s] %s made to fail (call %d) while block %s is processed: %s" % (
            lab, fcase["fault_site"], nth, fname, detail), fcase))
        return fails
    if rf.value.get("fault_hits"):
        stats.classes["fault hit in " + FAULT_SITES[site][0].split(".")[0]] += 1
    if not rf.value.get("fault_hits"):
        stats.classes["fault block had nothing to optimize"] += 1
        return fails
    out_f = json.loads(rf.value["files"][docrun.OUT])
    try:
        p_in = docs.aligned_blocks(doc, out_f)
        p_ok = docs.aligned_blocks(out_ok, out_f)
    except ValueError as e:
        fails.append(runner.Failure("fault-not-contained", "unalignable", "[%s] output under fault cannot be aligned: %s" % (lab, e), fcase))
        return fails
    from .c15 import norm_push0
    for (where, bi, bf), (_, bo, _) in zip(p_in, p_ok):
        bi, bf, bo = norm_push0(bi), norm_push0(bf), norm_push0(bo)
        is_fault = where.endswith(".data/0/.code #%d" % k)
        if is_fault:
            # a failure in the search / rebuild / re-verification of one sub-block may leave the other sub-blocks of the
            # block optimized; only a failing analysis (which works on the whole block) must leave it untouched
            # unchanged (the failure made the block impossible), or exactly the fault-free result (the tool absorbed the
            # failure at a finer grain and finished the analysis); anything else must at least be equivalent to the input
            if bf != bi and bf != bo:
                try:
                    cmpb = pipeline.compare_blocks(asm.items_to_instrs(bi), asm.items_to_instrs(bf), random.Random(k), n_states=24)
                except Exception:
                    cmpb = {"status": "ok"}
                if cmpb["status"] in ("differ", "underflow") and "memory domain" not in str(cmpb.get("reason")):
                    fails.append(runner.Failure("fault-not-contained", "faulty-block-miscompiled", "[%s] after a failure in %s the block was emitted as `%s`, "
                                                "which is not equivalent to its input: %s" % (lab, fcase["fault_site"], asm.instrs_to_plain(asm.items_to_instrs(bf))[:200], cmpb.get("reason")), fcase))
                else:
                    stats.classes["faulty block partly optimized (equivalent to its input)"] += 1
        elif bf != bo:
            fails.append(runner.Failure("fault-not-contained", "other-block-affected", "[%s] %s differs from the fault-free run although the fault (%s, call %d) was injected in block %d" % (lab, where, fcase["fault_site"], nth, k), fcase))
    return fails


def shard_random(n, sd):
    hermetic.setup_repo()
    stats = runner.Stats()

    @seed(sd)
    @settings(max_examples=n, database=None, deadline=None, phases=(Phase.generate,),
              suppress_health_check=list(HealthCheck), report_multiple_bugs=False)
    @given(st.lists(hostile_block(), min_size=3, max_size=6), options.pipeline_options([options.GREEDY] * 15 + [options.UBG_Z3]),
           st.integers(0, 40), options.encoder_options(), st.integers(0, 10 ** 6))
    def prop(blocks, argv, fault, enc, fs):
        solver = "-solver" in argv
        if solver:
            blocks = [b[:18] for b in blocks[:3]]     # solver runs are 20-50x dearer; results depend on its time-outs
            argv = argv + enc                         # Max-SMT runs also vary the encoder options
        # the containment comparison needs a deterministic back-end, so faults are only injected under -greedy
        frng = random.Random(fs)
        wf = [fault, frng.choice([0, 0] + list(range(len(FAULT_SITES)))), frng.choice([1, 1, 1, 2, 3, 6])] if fault < 9 and not solver else None
        for f in check_document(blocks, argv, stats, "random", with_fault=wf):
            stats.fail(f)
    prop()
    return stats


SWEEP_CONTRACT = ["tag 1 JUMPDEST PUSH 1 PUSH 2 ADD PUSH 0 MSTORE PUSH 20 PUSH 0 KECCAK256 DUP1 SLOAD PUSH 1 ADD SWAP1 SSTORE STOP",
                  "tag 2 JUMPDEST DUP2 DUP2 ADD PUSH 0 ADD DUP1 PUSH 40 MSTORE PUSH 40 MLOAD SWAP2 POP POP PUSH 0 PUSH 20 LOG0 PUSH 1 PUSH 1 SUB POP STOP",
                  "tag 3 JUMPDEST CALLER PUSH 0 DUP2 SWAP1 POP AND PUSH 5 SSTORE STOP"]


def shard_fault_sweep(jobs, sd):
    """every fault site x call number on one fixed contract whose middle block exercises the analysis, the search, the
    re-verification and the rebuild (split at LOG0, rules, memory operations)"""
    hermetic.setup_repo()
    stats = runner.Stats()
    blocks = [asm.parse_plain(t) for t in SWEEP_CONTRACT]
    for site, nth, argv in jobs:
        for f in check_document(blocks, argv, stats, "fault-sweep", with_fault=[1, site, nth]):
            stats.fail(f)
    return stats


def shard_templates(temps, sd):
    hermetic.setup_repo()
    stats = runner.Stats()
    G = 10
    argvs = options.all_pipeline_options()
    rng = random.Random(sd)
    for i in range(0, len(temps), G):
        for f in check_document([t[1] for t in temps[i:i + G]], rng.choice(argvs), stats, "catalogue"):
            stats.fail(f)
    return stats


def replay_case(case, stats=None):
    stats = stats or runner.Stats()
    blocks = [asm.parse_plain(t) for t in case["blocks"]]
    out = []
    for argv in ([case["argv"]] if "argv" in case else [["-greedy"], ["-storage", "-greedy"], ["-partition", "-size", "-greedy"]]):
        out += check_document(blocks, argv, stats, "replay", with_fault=case.get("fault"))
    return out


def shrink(f):
    """find one block of the contract that alone reproduces the failure, then ddmin it"""
    from ..shrink import shrink_block
    argv = f.case["argv"]
    fault = f.case.get("fault")
    blocks = [asm.parse_plain(t) for t in f.case["blocks"]]

    def fails_with(bs, flt=None):
        for x in check_document(bs, argv, runner.Stats(), "shrink", with_fault=flt):
            if x.bucket == f.bucket:
                return x
        return None
    if fault is not None:
        return f
    best = f
    for b in blocks:
        x = fails_with([b])
        if x:
            best = x

            def still(c):
                return fails_with([c])
            return shrink_block(b, still, budget_s=25) or best
    return best


def _dispatch(fn, a):
    return fn(*a)


def main(tier, seed_):
    t0 = time.time()
    hermetic.setup_repo()
    stats = runner.Stats()
    with pipeline.isolated():
        for path in runner.replay_files(ID):
            for f in replay_case(json.load(open(path))["case"], stats):
                stats.fail(f)
    n = 480 if tier == "quick" else 8000
    temps = catalogue.templates("quick")
    temps = [t for t in temps if t[0].split(":")[0] in ("fold", "chain", "ter", "un")] if tier == "quick" else temps
    per = max(1, n // runner.NPROC)
    jobs = [(shard_random, (per, runner.shard_seed(seed_, i, "c10"))) for i in range(runner.NPROC)]
    jobs += [(shard_templates, (ch, runner.shard_seed(seed_, i, "c10t"))) for i, ch in enumerate(runner.chunks(temps, runner.NPROC))]
    sweep = [(site, nth, argv) for site in range(len(FAULT_SITES)) for nth in ((1, 2) if tier == "quick" else (1, 2, 3, 5, 9))
             for argv in ((["-greedy"],) if tier == "quick" else (["-greedy"], ["-storage", "-greedy"], ["-partition", "-size", "-greedy"]))]
    jobs += [(shard_fault_sweep, (ch, runner.shard_seed(seed_, i, "c10f"))) for i, ch in enumerate(runner.chunks(sweep, runner.NPROC)) if ch]

    def on_suspect(case, why):
        # a shard hung or died: the journalled contract is re-run alone under hard limits
        st2 = runner.Stats()
        st2.notes["shards-aborted (%s)" % why[:40]] += 1
        with pipeline.isolated():
            for f in replay_case(case, st2):
                st2.fail(f)
        return st2
    res = runner.run_shards(_dispatch, jobs, stall_s=240, on_suspect=on_suspect)
    stats.merge(runner.merge_stats(res))
    return runner.conclude(ID, tier, seed_, stats, RULE, ASSUME, t0, level="fault_enumeration", exhaustive=False,
                           extra_cov={"catalogue_templates_run": len(temps)}, shrink=shrink)
