"""C16 -- the numeric bounds published in a specification are valid."""
import copy
import json
import random
import time
from hypothesis import given, settings, seed, strategies as st, HealthCheck, Phase

from .. import evm, asm, hermetic, runner, pipeline, gen, options, seqcheck, brute, catalogue
from .c04 import run_greedy

ID = "C16"
RULE = ("specifications from generated blocks and from the whole rule catalogue (discount bookkeeping is per rule) x "
        "{default,-storage,-partition} x {rules on,off}; witnesses for feasibility of (init_progr_len, max_sk_sz): the original "
        "segment mapped to ids when no rule fired, the greedy result (validated by E4), an exhaustive E5 search when "
        "init_progr_len <= 6; a violation is reported only with a proof: init_progr_len below the number of instructions every "
        "realizing sequence must contain, max_sk_sz below max(|src|,|tgt|,arity), or an exhaustive E5 search that finds no "
        "sequence inside the bounds while one exists outside; min_length must be <= the length of every validated realizing "
        "sequence; original_instrs must equal the reported sub-block; non-trivial = rules fired (discount > 0) or >= 1 "
        "dependence pair; distinct by specification hash")
ASSUME = ["sequence checker vf/seqcheck.py and enumerator vf/brute.py (own transition function)",
          "E5 is conclusive only within its node budget; everything else is counted as inconclusive"]


def specs_and_greedy(items, argv):
    out = []
    for b in hermetic.spec_of_items(items, argv):
        if "error" in b:
            out.append({"error": b["error"]})
            continue
        subs = b["subs"]
        for name, S in b["spec"].items():
            k = int(name.rsplit("_", 1)[1])
            seg = list(subs[k]) if k < len(subs) else None
            if seg is not None:
                if k > 0:
                    seg = seg[1:]
                if k < len(subs) - 1:
                    seg = seg[:-1]
            g = run_greedy(S)
            try:
                from smt_encoding.json_with_dependencies import extended_json_with_instr_dep_and_bounds
                ext = extended_json_with_instr_dep_and_bounds(copy.deepcopy(S))
                g["lb"], g["ub"] = ext.get("lower_bounds"), ext.get("upper_bounds")
            except Exception:
                g["lb"] = g["ub"] = None
            g["segment"] = seg
            g["name"] = name
            out.append(g)
    return out


def rule_key(rules):
    def nm(x):
        if x.startswith("EVAL"):
            return "EVAL"
        if "useless" in x:
            return "useless-store"
        if "=" in x and ("load" in x or "sha3" in x or "keccak" in x) and x.startswith("("):
            return "load-forwarding"          # "((addr, 'sload0'), 1)= (addr, value, 'sstore')"
        return x
    names = sorted(set(nm(x) for x in rules))
    return "+".join(names[:4]) or "norule"


def why_infeasible_without_rules(S, seg, b0, bs):
    """root-cause signature of an infeasible pair of bounds when no rule fired, from the original segment"""
    if seg is None:
        return "norule"
    ids = brute.original_to_ids(S, seg)
    if ids is None:
        return "original-not-expressible"      # an instruction of the segment is not offered by the specification (dead code dropped, folded)
    v = seqcheck.check(S, ids)
    if not v:
        return "original-not-realizing"
    if v.length > b0:
        return "below-original-length"
    if v.peak > bs:
        return "below-original-height"
    return "norule"


def root_cause_of_infeasible_bounds(S, seg, b0, bs, rules):
    """root-cause key of an infeasible (init_progr_len, max_sk_sz) pair, decided by exhaustive searches (E5)"""
    budget = 150000
    if rules:
        # the specification was rewritten.  Does a realizing sequence fit the bounds the original block had?
        r_orig, _ = brute.exists_within(S, S["max_progr_len"], bs, node_budget=budget)
        if r_orig == "yes":
            return "rule-discount"                     # only the discount subtracted for the fired rules is too large
    r_len, _ = brute.exists_within(S, b0, bs + 4, node_budget=budget)
    if r_len == "yes":
        # the length is fine, the stack bound is the problem
        if not rules and seg is not None:
            ids = brute.original_to_ids(S, seg)
            v = seqcheck.check(S, ids) if ids is not None else None
            if v and v.peak > bs:
                # shape of the specification: is an element of the initial stack both kept in the final stack and an
                # operand of some instruction (it must be duplicated)?  The listed finding has only been seen without it.
                kept_operand = any(x in S["tgt_ws"] and any(x in u["inpt_sk"] for u in S["user_instrs"]) for x in S["src_ws"])
                return "stack-bound:below-original-height" + (":kept-input-is-operand" if kept_operand else "")
        return "stack-bound:simplified-spec-deeper-than-original"
    if rules:
        return "rule-lengthens"                        # the rewritten term needs more instructions than the original block had
    return why_infeasible_without_rules(S, seg, b0, bs)


def which_position_bound(S, ids, lb, ub):
    """for a realizing sequence shorter than min_length: which published position bound does it contradict?"""
    if not lb or not ub:
        return "no-bounds"
    pos = {}
    for i, x in enumerate(ids):
        pos.setdefault(x, []).append(i)
    deps = S.get("dependencies") or []
    low = sorted(x for x in lb if x in pos and min(pos[x]) < lb[x])
    if low:
        x = low[0]
        preds = [a for a, b in deps if b == x]
        return "lower-bound:%s" % ("several-predecessors" if len(preds) >= 2 else "one-predecessor" if preds else "no-predecessor")
    n = len(ids)
    b0 = S["init_progr_len"]
    high = sorted(x for x in ub if x in pos and (b0 - n) + max(pos[x]) > ub[x])
    if high:
        x = high[0]
        out = [u for u in S["user_instrs"] if u["id"] == x]
        depth = [S["tgt_ws"].index(o) for u in out for o in u.get("outpt_sk", []) if o in S["tgt_ws"]]
        return "upper-bound:%s" % ("result-in-final-stack" if depth else "result-consumed")
    return "min_length_instrs" if S.get("min_length_instrs", 0) > n else "other"


def check_block(instrs, argv, rng, stats, label, e5_len=6):
    fails = []
    r = pipeline.gasol(specs_and_greedy, asm.instrs_to_items(instrs), list(argv), cpu=30)
    if r.kind != "ok":
        stats.classes["child-" + r.kind] += 1
        return fails
    lo = pipeline.lib_order(instrs)

    def fail(kind, cul, what, S, extra=None):
        c = {"type": "block", "blocks": [asm.instrs_to_plain(instrs)], "argv": list(argv), "label": label}
        c.update(extra or {})
        fails.append(runner.Failure(kind, cul, "%s [%s] `%s`: %s" % (kind, " ".join(argv), S.get("original_instrs"), what), c))

    for g in r.value:
        if "spec" not in g:
            stats.classes["spec-generation-raised (C10 territory)"] += 1
            continue
        S = g["spec"]
        stats.evaluations += 1
        b0, bs, mn = S["init_progr_len"], S["max_sk_sz"], S.get("min_length", 0)
        rules = S.get("rules") or []
        if rules or S.get("dependencies"):
            stats.nontrivial.add(runner.jhash([S["src_ws"], S["tgt_ws"], [(u["disasm"], u["inpt_sk"], u.get("outpt_sk"), u.get("value")) for u in S["user_instrs"]], rules]))
        stats.classes["rules fired" if rules else "no rule"] += 1
        # original_instrs = the reported sub-block
        if g.get("segment") is not None:
            a = S["original_instrs"].split()
            b = " ".join(g["segment"]).split()
            if a != b and not ("ASSIGNIMMUTABLE" in a):
                fail("original-instrs", "mismatch", "original_instrs %s differs from the reported sub-block %s" % (a, b), S)
        # proof-carrying infeasibility
        try:
            seg = pipeline.segment_instrs(S, lo)
        except Exception:
            seg = None
        lb = brute.length_lower_bound(S)
        if b0 < lb:
            fail("bounds-infeasible", ("rule-discount" if rules and lb <= S["max_progr_len"] else "rule-lengthens" if rules else
                                       why_infeasible_without_rules(S, seg, b0, bs)),
                 "init_progr_len=%d but every realizing sequence contains %d distinct instructions (rules: %s)" % (b0, lb, rule_key(rules)), S,
                 {"rules": rules})
        hb = brute.height_lower_bound(S)
        if bs < hb:
            fail("stack-bound-infeasible", "height", "max_sk_sz=%d but source/target stack or an operand list needs %d" % (bs, hb), S)
        witnesses = []
        # witness 1: original segment (only meaningful when no rule rewrote the specification)
        if seg is not None and not rules:
            ids = brute.original_to_ids(S, seg)
            if ids is not None and seqcheck.check(S, ids):
                v = seqcheck.check(S, ids)
                witnesses.append(("original", ids, v))
        # witness 2: greedy
        if g.get("err") == 0 and g.get("ids") is not None:
            v = seqcheck.check(S, g["ids"])
            if v:
                witnesses.append(("greedy", g["ids"], v))
        feasible = any(v.length <= b0 and v.peak <= bs for _, _, v in witnesses)
        if feasible:
            stats.classes["feasible (witness inside bounds)"] += 1
        else:
            if b0 <= e5_len and len(S["user_instrs"]) <= 8:
                res, seq = brute.exists_within(S, b0, bs, node_budget=150000)
                if res == "yes":
                    v = seqcheck.check(S, seq)
                    if v:
                        witnesses.append(("e5", seq, v))
                        stats.classes["feasible (E5 witness)"] += 1
                    else:
                        stats.classes["E5 self-check failed (harness)"] += 1
                elif res == "no":
                    outside = [w for w in witnesses]
                    res2, seq2 = ("yes", outside[0][1]) if outside else brute.exists_within(S, b0 + 4, bs + 3, node_budget=150000)
                    if res2 == "yes":
                        cul = root_cause_of_infeasible_bounds(S, seg, b0, bs, rules)
                        fail("bounds-infeasible", cul, "no realizing sequence with length<=%d and height<=%d exists (exhaustive search) "
                             "although %s realizes the specification (rules: %s)" % (b0, bs, seq2, rule_key(rules)), S, {"rules": rules})
                    else:
                        stats.classes["unrealizable even outside bounds / unknown"] += 1
                        stats.inconclusive += 1
                else:
                    stats.classes["inconclusive (E5 budget)"] += 1
                    stats.inconclusive += 1
            else:
                stats.classes["inconclusive (no witness inside bounds, too large for E5)"] += 1
                stats.inconclusive += 1
        for wname, ids, v in witnesses:
            if mn > v.length:
                fail("min-length-too-large", which_position_bound(S, ids, g.get("lb"), g.get("ub")),
                     "min_length=%d (instrs %s, bounds %s) but the %s sequence %s (length %d) realizes the specification" % (
                         mn, S.get("min_length_instrs"), S.get("min_length_bounds"), wname, ids, v.length), S)
                break
        if rules and len(stats.samples) < 6:
            stats.sample({"segment": S["original_instrs"], "rules": rules, "init_progr_len": b0, "max_progr_len": S["max_progr_len"],
                          "max_sk_sz": bs, "min_length": mn, "witnesses": [(w, v.length, v.peak) for w, _, v in witnesses]})
    return fails


def argv_strategy():
    return st.builds(lambda a, b: ["-greedy"] + a + b, st.sampled_from(options.SPLIT), st.sampled_from(options.RULES))


def shard_random(n, sd):
    hermetic.setup_repo()
    stats = runner.Stats()

    @seed(sd)
    @settings(max_examples=n, database=None, deadline=None, phases=(Phase.generate,),
              suppress_health_check=list(HealthCheck), report_multiple_bugs=False)
    @given(st.one_of(gen.body(max_len=8, profile=gen.ARITH_PROFILE), gen.body(max_len=16), gen.body(max_len=20, profile=gen.MEM_PROFILE),
                     gen.corpus_block(), gen.kept_loads_block(), gen.two_store_block(), gen.dead_load_by_rule_block(), gen.unused_hashes_block(), gen.store_terms_block(), gen.swapped_commutative_block(), gen.operand_split_block()), argv_strategy(), st.integers(0, 2 ** 32))
    def prop(instrs, argv, s):
        fs = check_block(instrs, argv, random.Random(s), stats, "random")
        for f in pipeline.confirmed(fs, lambda: check_block(instrs, argv, random.Random(s), runner.Stats(), "random"), stats):
            stats.fail(f)
    prop()
    return stats


def shard_catalogue(temps, sd):
    hermetic.setup_repo()
    stats = runner.Stats()
    rng = random.Random(sd)
    for label, instrs in temps:
        fs = check_block(instrs, ["-greedy"], rng, stats, label)
        for f in pipeline.confirmed(fs, lambda: check_block(instrs, ["-greedy"], rng, runner.Stats(), label), stats):
            stats.fail(f)
    return stats


def replay_case(case, stats=None):
    stats = stats or runner.Stats()
    out = []
    for text in case["blocks"]:
        for argv in ([case["argv"]] if "argv" in case else [["-greedy"] + a + b for a in options.SPLIT for b in options.RULES]):
            out += check_block(asm.parse_plain(text), argv, random.Random(1), stats, "replay")
    return out


def shrink(f):
    from ..shrink import shrink_block
    instrs = asm.parse_plain(f.case["blocks"][0])
    argv = f.case["argv"]

    def still(cand):
        for x in check_block(cand, argv, random.Random(1), runner.Stats(), "shrink"):
            if x.bucket == f.bucket:
                return x
        return None
    return shrink_block(instrs, still, budget_s=15) or f


def _dispatch(fn, a):
    return fn(*a)


def main(tier, seed_):
    t0 = time.time()
    hermetic.setup_repo()
    stats = runner.Stats()
    with pipeline.isolated():
        for path in runner.replay_files(ID):
            for f in replay_case(json.load(open(path))["case"], stats):
                stats.fail(f)
    temps = [t for t in catalogue.templates("quick") if tier != "quick" or t[0].split(":")[0] in ("bin", "un", "chain", "spec", "ter", "mem", "share")]
    n = 3200 if tier == "quick" else 120000
    per = max(1, n // runner.NPROC)
    jobs = [(shard_random, (per, runner.shard_seed(seed_, i, "c16"))) for i in range(runner.NPROC)]
    jobs += [(shard_catalogue, (ch, runner.shard_seed(seed_, i, "c16c"))) for i, ch in enumerate(runner.chunks(temps, runner.NPROC))]
    res = runner.run_shards(_dispatch, jobs)
    stats.merge(runner.merge_stats(res))
    return runner.conclude(ID, tier, seed_, stats, RULE, ASSUME, t0, exhaustive=False,
                           extra_cov={"catalogue_templates": len(temps)}, shrink=shrink)
