"""C14 -- splitting partitions the block; rebuilding with nothing optimized is the identity."""
import json
import random
import time
from hypothesis import given, settings, seed, strategies as st, HealthCheck, Phase

from .. import evm, asm, hermetic, runner, pipeline, gen, options

ID = "C14"
MODES = [[], ["-storage"], ["-partition"]]
RULE = ("blocks with split-layout emphasis (0-6 split instructions anywhere incl. first/last/consecutive, stores, lengths "
        "18-30 around the 22-instruction partition threshold, leading tag/JUMPDEST, trailing jump/terminal, pseudo-pushes whose "
        "text contains another's) x {default,-storage,-partition}; checked: (1) sub-blocks joined at the shared instruction = "
        "optimizable instruction list, shared instruction is a split/store instruction; (2) get_subblocks = the list returned with "
        "the specifications; (3) every specification key names one reported non-empty sub-block and |tgt|-|src| equals the height "
        "change of that segment, |src| <= height available; (4) rebuild with nothing replaced = input block item for item; "
        "(5) rebuild with sub-block k replaced by a marker sequence = input with exactly that segment replaced; "
        "non-trivial = >= 2 sub-blocks; distinct by (block, policy)")
ASSUME = ["own arity table (vf/evm.py) for stack heights"]
MARK = [("PUSH", 0xDEADBEEF), ("PUSH", 0xCAFE)]


def probe(items, argv):
    """(child) everything C14 observes for the first block of items"""
    import copy
    import gasol_asm
    import sfs_generator.ir_block as ir_block
    from sfs_generator.asm_bytecode import AsmBytecode
    from solution_generation.optimize_from_sub_blocks import rebuild_optimized_asm_block
    params = hermetic.make_params(["in.json"] + list(argv))
    hermetic.prepare_globals(params)
    out = []
    for b in hermetic.build_blocks(items):
        d = {"name": b.block_name, "items": [i.to_json() for i in b.instructions], "opt": b.instructions_to_optimize_plain(),
             "src": b.source_stack}
        if not d["opt"]:
            out.append(d)
            continue
        try:
            sfs, subs = gasol_asm.compute_original_sfs_with_simplifications(b, params)
        except Exception as e:
            d["error"] = str(e)[:200]
            out.append(d)
            continue
        d["subs"] = copy.deepcopy(subs)
        d["specs"] = {k: {"src_ws": v["src_ws"], "tgt_ws": v["tgt_ws"], "original_instrs": v["original_instrs"]}
                      for k, v in sfs["syrup_contract"].items()}
        try:
            d["subs2"] = ir_block.get_subblocks({"instructions": b.instructions_to_optimize_plain(), "input": b.source_stack},
                                                storage=params.split_storage, part=params.split_partition)
        except Exception as e:
            d["subs2_error"] = str(e)[:200]
        rb = {}
        try:
            nb = rebuild_optimized_asm_block(b, subs, {})
            rb["none"] = [i.to_json() for i in nb.instructions]
            nb = rebuild_optimized_asm_block(b, subs, {"%s_%d" % (b.block_name, k): None for k in range(len(subs))})
            rb["allnone"] = [i.to_json() for i in nb.instructions]
            for k in range(len(subs)):
                repl = [AsmBytecode(-1, -1, -1, "PUSH", "%x" % v) for _, v in MARK]
                nb = rebuild_optimized_asm_block(b, subs, {"%s_%d" % (b.block_name, k): repl})
                rb[str(k)] = [i.to_json() for i in nb.instructions]
        except BaseException as e:  # noqa
            rb["error"] = "%s: %s" % (type(e).__name__, str(e)[:200])
        d["rebuild"] = rb
        out.append(d)
    return out


def same_plain(a, b):
    return a == b or (a.split(" ")[0] == "ASSIGNIMMUTABLE" and b.split(" ")[0] == "ASSIGNIMMUTABLE")


def split_set(argv):
    s = set(asm.DEFAULT_SPLIT)
    if "-storage" in argv or "-partition" in argv:
        s |= {"MSTORE", "MSTORE8", "SSTORE"}
    return s


def check_block(instrs, argv, stats, label):
    fails = []
    r = pipeline.gasol(probe, asm.instrs_to_items(instrs), list(argv), cpu=30)
    stats.evaluations += 1
    if r.kind != "ok":
        stats.classes["child-" + r.kind] += 1
        return fails
    pol = " ".join(a for a in argv if a in ("-storage", "-partition")) or "default"

    def fail(kind, cul, what, extra=None):
        c = {"type": "block", "blocks": [asm.instrs_to_plain(instrs)], "argv": list(argv), "label": label}
        c.update(extra or {})
        fails.append(runner.Failure(kind, cul, "%s [%s] `%s`: %s" % (kind, pol, asm.instrs_to_plain(instrs), what), c))

    for d in r.value:
        if "error" in d:
            stats.classes["spec-generation-raised (C10 territory)"] += 1
            continue
        if "subs" not in d:
            stats.classes["nothing to optimize"] += 1
            continue
        subs, opt = d["subs"], d["opt"]
        stats.classes["sub-blocks=%d" % min(len(subs), 6)] += 1
        stats.classes["policy " + pol] += 1
        if len(subs) >= 2:
            stats.nontrivial.add(runner.jhash([opt, pol]))
        # (1) tiling
        joined = list(subs[0]) if subs else []
        ok = True
        for k in range(1, len(subs)):
            if not subs[k] or not subs[k - 1] or not same_plain(subs[k][0], subs[k - 1][-1]):
                fail("tiling", "joint", "sub-blocks %d and %d do not share their joint instruction: %s | %s" % (k - 1, k, subs[k - 1][-3:], subs[k][:3]))
                ok = False
                break
            if subs[k][0].split(" ")[0] not in split_set(argv):
                fail("tiling", "joint-kind", "joint instruction %s is not a splitting instruction of the policy" % subs[k][0])
                ok = False
            joined += list(subs[k][1:])
        if ok and (len(joined) != len(opt) or not all(same_plain(x, y) for x, y in zip(joined, opt))):
            fail("tiling", "join", "joined sub-blocks %s differ from the optimizable sequence %s" % (joined, opt))
            ok = False
        # (2) get_subblocks agreement
        if "subs2" in d and d["subs2"] != subs:
            fail("get_subblocks-disagrees", "list", "get_subblocks %s vs compiler %s" % (d["subs2"], subs))
        if "subs2_error" in d:
            fail("get_subblocks-disagrees", "raise", "get_subblocks raised %s" % d["subs2_error"])
        if not ok:
            continue
        # segments without the joint instructions
        segs = []
        for k, s in enumerate(subs):
            seg = list(s)
            if k > 0:
                seg = seg[1:]
            if k < len(subs) - 1:
                seg = seg[:-1]
            segs.append(seg)
        # (3) keys and heights
        h = None
        try:
            pre = asm.parse_plain(" ".join(opt))
        except Exception:
            pre = None
        for key, sp in d["specs"].items():
            pref = d["name"] + "_"
            if not key.startswith(pref) or not key[len(pref):].isdigit() or int(key[len(pref):]) >= len(subs):
                fail("spec-key", "unknown", "specification key %s names no reported sub-block (%d sub-blocks)" % (key, len(subs)))
                continue
            k = int(key[len(pref):])
            if not segs[k]:
                fail("spec-key", "empty", "specification %s for an empty segment" % key)
                continue
            try:
                seg_i = asm.parse_plain(" ".join(segs[k]))
                need, delta = evm.need_and_delta(seg_i)
                before = asm.parse_plain(" ".join(x for s in subs[:k] for x in (s if s is subs[0] else s[1:])))
                # height available when segment k starts (relative to block need)
                bneed, bdelta = evm.need_and_delta(before[:len(before) - 0])
            except Exception:
                stats.classes["segment not parseable by own reader"] += 1
                continue
            if len(sp["tgt_ws"]) - len(sp["src_ws"]) != delta:
                fail("height-chain", "delta", "spec %s: |tgt|-|src| = %d but the segment changes the height by %d" % (key, len(sp["tgt_ws"]) - len(sp["src_ws"]), delta))
            if len(sp["src_ws"]) > max(need, 0) + 0 and len(sp["src_ws"]) > need:
                # the spec may not need MORE input words than the segment itself consumes
                fail("height-chain", "src", "spec %s: source stack of %d words but the segment only needs %d" % (key, len(sp["src_ws"]), need))
        # (4)/(5) rebuild
        rb = d["rebuild"]
        if "error" in rb:
            fail("rebuild-raised", rb["error"].split(":")[0], "rebuild_optimized_asm_block raised %s" % rb["error"])
            continue
        for tag in ("none", "allnone"):
            if rb[tag] != d["items"]:
                fail("rebuild-identity", tag, "rebuild with nothing replaced differs from the block: %s" % first_diff(rb[tag], d["items"]))
        # expected single replacement, built independently from the block items + reported partition
        items = d["items"]
        head = [it for it in items if it["name"] in asm.BLOCK_BEGIN]
        body = [it for it in items if it["name"] not in asm.BLOCK_BEGIN and it["name"] not in asm.BLOCK_END]
        tail = [it for it in items if it["name"] in asm.BLOCK_END]
        # positions of segments inside body
        pos = 0
        spans = []
        for k, s in enumerate(subs):
            start = pos if k == 0 else pos + 1     # skip the joint instruction
            ln = len(segs[k])
            spans.append((start, start + ln))
            pos = start + ln - (0 if k == len(subs) - 1 else 0)
        mark_items = [{"begin": -1, "end": -1, "name": "PUSH", "source": -1, "value": "%x" % v} for _, v in MARK]
        for k in range(len(subs)):
            a, b = spans[k]
            exp = head + body[:a] + mark_items + body[b:] + tail
            got = rb.get(str(k))
            if got != exp and items == head + body + tail:
                fail("rebuild-replace", "segment", "replacing sub-block %d: %s" % (k, first_diff(got, exp)), {"k": k})
        if len(subs) >= 2 and len(stats.samples) < 6:
            stats.sample({"block": " ".join(opt), "policy": pol, "sub_blocks": subs})
    return fails


def first_diff(a, b):
    if a is None or b is None:
        return "missing"
    for i, (x, y) in enumerate(zip(a, b)):
        if x != y:
            return "item %d: got %s expected %s" % (i, x, y)
    return "length %d vs %d" % (len(a), len(b))


SPLITTY = dict(push=16, pseudo=4, dup=10, swap=8, pop=4, bin=8, un=2, ter=0, env0=3, env1=1, mem=14, sto=8, keccak=1, split=14, idiom=1)


def shard_random(n, sd):
    hermetic.setup_repo()
    stats = runner.Stats()

    @seed(sd)
    @settings(max_examples=n, database=None, deadline=None, phases=(Phase.generate,),
              suppress_health_check=list(HealthCheck), report_multiple_bugs=False)
    @given(st.one_of(gen.block(min_len=1, max_len=34, profile=SPLITTY), gen.block(min_len=16, max_len=32, profile=gen.MEM_PROFILE), gen.operand_split_block(),
                     gen.corpus_block()), st.sampled_from(MODES), st.sampled_from(options.RULES))
    def prop(instrs, mode, rules):
        argv = ["-greedy"] + mode + rules
        fs = check_block(instrs, argv, stats, "random")
        for f in pipeline.confirmed(fs, lambda: check_block(instrs, argv, runner.Stats(), "random"), stats):
            stats.fail(f)
    prop()
    return stats


def replay_case(case, stats=None):
    stats = stats or runner.Stats()
    out = []
    for text in case["blocks"]:
        for argv in ([case["argv"]] if "argv" in case else [["-greedy"] + m for m in MODES]):
            out += check_block(asm.parse_plain(text), argv, stats, "replay")
    return out


def shrink(f):
    from ..shrink import shrink_block
    instrs = asm.parse_plain(f.case["blocks"][0])
    argv = f.case["argv"]

    def still(cand):
        for x in check_block(cand, argv, runner.Stats(), "shrink"):
            if x.bucket == f.bucket:
                return x
        return None
    return shrink_block(instrs, still, budget_s=15) or f


def _dispatch(fn, a):
    return fn(*a)


def main(tier, seed_):
    t0 = time.time()
    hermetic.setup_repo()
    stats = runner.Stats()
    with pipeline.isolated():
        for path in runner.replay_files(ID):
            for f in replay_case(json.load(open(path))["case"], stats):
                stats.fail(f)
    n = 6400 if tier == "quick" else 300000
    per = max(1, n // runner.NPROC)
    res = runner.run_shards(_dispatch, [(shard_random, (per, runner.shard_seed(seed_, i, "c14"))) for i in range(runner.NPROC)])
    stats.merge(runner.merge_stats(res))
    return runner.conclude(ID, tier, seed_, stats, RULE, ASSUME, t0, exhaustive=False, shrink=shrink)
