"""shared engine of C06 / C07: emit the Max-SMT problem for a small specification, enumerate the models of its
hard constraints with the z3 helper (E6), decode them (own decoding + the tool's model reader) and collect
everything both properties judge."""
import copy
import itertools
import json
import random

from hypothesis import strategies as st

from .. import evm, asm, hermetic, runner, pipeline, seqcheck, brute, cost, options
from ..smt import client

VOC = [("PUSH", 1), ("PUSH", 2), ("DUP1", None), ("DUP2", None), ("SWAP1", None), ("SWAP2", None), ("POP", None), ("ADD", None),
       ("SUB", None), ("MLOAD", None), ("MSTORE", None), ("SLOAD", None), ("SSTORE", None), ("ISZERO", None), ("CALLER", None)]


def small_blocks(max_len):
    out = []
    for n in range(1, max_len + 1):
        for combo in itertools.product(VOC, repeat=n):
            need, _ = evm.need_and_delta(list(combo))
            if need <= 3:
                out.append(list(combo))
    return out


def dependence_blocks():
    """blocks whose specification carries memory / storage dependences (store->load, load->store, store->store, hash after
    store) on symbolic addresses, with and without slack in the length bound (a redundant prefix leaves room for programs
    that place the accesses elsewhere); every one is paired with fixed option sets that cover both memory encodings with and
    without dependency-aware position bounds:  list of (instrs, argv)"""
    I = lambda *names: [(n, None) for n in names]
    cores = [I("MSTORE", "MLOAD"), I("SSTORE", "SLOAD"), I("DUP1", "MLOAD", "SWAP2", "MSTORE"), I("DUP1", "SLOAD", "SWAP2", "SSTORE"),
             I("MSTORE", "MSTORE"), I("SSTORE", "SSTORE"), I("MSTORE8", "MLOAD"), I("MSTORE", "DUP1", "MLOAD", "SWAP2", "MSTORE"),
             I("DUP2", "DUP2", "MSTORE", "MLOAD", "SWAP1", "MLOAD"), I("SWAP2", "SWAP1", "MSTORE", "MLOAD"),
             I("MLOAD", "SWAP2", "SWAP1", "MSTORE"), I("SLOAD", "SWAP2", "SWAP1", "SSTORE"), I("MSTORE", "KECCAK256"),
             I("DUP1", "MLOAD", "SWAP1", "MLOAD"), I("MSTORE", "SLOAD"), I("SSTORE", "MLOAD")]
    prefixes = [[], I("SWAP1", "SWAP1"), I("DUP1", "POP"), I("DUP1", "SWAP1", "POP")]
    argvs = [[], ["-order-bounds"], ["-order-bounds", "-order-conflicts"], ["-memory-encoding", "l_vars"],
             ["-memory-encoding", "l_vars", "-order-bounds"], ["-order-bounds", "-term-encoding", "int"], ["-empty"],
             ["-order-bounds", "-empty"], ["-term-encoding", "stack_vars", "-pop-uninterpreted"], ["-order-bounds", "-direct-inequalities"]]
    out = []
    for c in cores:
        for pre in prefixes:
            b = pre + c
            try:
                need, _ = evm.need_and_delta(b)
            except Exception:
                continue
            if need > 5 or len(b) > 7:
                continue
            for a in argvs:
                out.append((b, ["-solver", "z3"] + a))
    return out


def encoder_argv_strategy():
    return st.builds(lambda flags, t, m, c: ["-solver", "z3"] + [x for f in flags for x in f] + list(t) + list(m) + list(c),
                     st.lists(st.sampled_from(options.ENCODER_FLAGS), max_size=3, unique_by=lambda f: f[0]),
                     st.sampled_from(options.TERM_ENCODINGS + [[]]), st.sampled_from(options.MEM_ENCODINGS), st.sampled_from(options.CRIT))


def encode(items, argv, solver_dialects=("z3",)):
    """(tool process) specification(s) of the block under argv + the emitted Max-SMT text per sub-block"""
    import gasol_asm
    from smt_encoding.block_optimizer import BlockOptimizer
    params = hermetic.make_params(["in.json"] + list(argv))
    hermetic.prepare_globals(params)
    out = []
    for b in hermetic.build_blocks(items):
        if b.instructions_to_optimize_plain() == []:
            continue
        try:
            sfs, _ = gasol_asm.compute_original_sfs_with_simplifications(b, params)
        except Exception as e:
            out.append({"spec_error": type(e).__name__})
            continue
        for name, S in sfs["syrup_contract"].items():
            rec = {"name": name, "spec": copy.deepcopy(S)}
            try:
                bo = BlockOptimizer(name, copy.deepcopy(S), params, 2)
                bo.generate_intermediate_files()
                rec["text"] = open(bo._encoding_file).read()
                rec["theta"] = {str(k): v.id for k, v in bo._full_encoding.theta_to_instr.items()}
                bounds = bo._full_encoding._bounds
                rec["first"] = bounds.first_position_sequence
                rec["last"] = bounds.last_position_sequence
                if "oms" in solver_dialects:
                    p2 = hermetic.make_params(["in.json"] + [a if a != "z3" else "oms" for a in argv])
                    bo2 = BlockOptimizer(name, copy.deepcopy(S), p2, 2)
                    bo2.generate_intermediate_files()
                    rec["text_oms"] = open(bo2._encoding_file).read()
            except BaseException as e:  # noqa
                import traceback
                tb = traceback.extract_tb(e.__traceback__)
                fr = [f for f in tb if f.filename.startswith(hermetic.REPO)]
                rec["encode_error"] = "%s@%s:%s: %s" % (type(e).__name__, fr[-1].filename.replace(hermetic.REPO + "/", "") if fr else "?",
                                                       fr[-1].name if fr else "?", str(e)[:120])
            out.append(rec)
    return out


def decode_with_tool(S, argv, name, model_texts):
    """(tool process) run the tool's own model reader on prepared solver outputs"""
    from smt_encoding.block_optimizer import BlockOptimizer
    params = hermetic.make_params(["in.json"] + list(argv))
    hermetic.prepare_globals(params)
    bo = BlockOptimizer(name, copy.deepcopy(S), params, 2)
    out = []
    for text in model_texts:
        bo._solver._model = "sat\n(objectives\n)\n(\n" + text + "\n)"
        try:
            out.append(bo._rebuild_block_from_solver())
        except BaseException as e:  # noqa
            out.append("raised %s: %s" % (type(e).__name__, str(e)[:100]))
    return out


class Engine:
    def __init__(self):
        self.helper = client.Z3Helper()

    def close(self):
        self.helper.close()

    def analyze(self, instrs, argv, cap=1500, tool_decode=2, want_oms=False):
        """list of records, one per sub-block specification"""
        r = pipeline.gasol(encode, asm.instrs_to_items(instrs), list(argv), ("z3", "oms") if want_oms else ("z3",), cpu=60)
        if r.kind != "ok":
            return [{"harness": r.kind, "info": str(r.info)[:200]}]
        recs = r.value
        for rec in recs:
            if "text" not in rec:
                continue
            S = rec["spec"]
            b0 = S["init_progr_len"]
            if b0 <= 0 or b0 > 8:
                rec["skipped"] = "init_progr_len=%d outside the enumerated range" % b0
                continue
            job = {"op": "enumerate", "text": rec["text"], "b0": b0, "first": rec["first"], "cap": cap, "wellformed": True,
                   "sexpr_for": tool_decode, "timeout_ms": 20000}
            ans = self.helper.ask(job)
            rec["enum"] = ans
            if want_oms and "text_oms" in rec:
                rec["wellformed_oms"] = self.helper.ask({"op": "wellformed", "text": rec["text_oms"]}).get("wellformed")
            if "models" in ans:
                th = rec["theta"]
                for m in ans["models"]:
                    m["ids"] = [th.get(str(t), "?%s" % t) for t in m["t"]]
                sx = [m["sexpr"] for m in ans["models"] if "sexpr" in m]
                if sx:
                    rd = pipeline.gasol(decode_with_tool, S, list(argv), rec["name"], sx, cpu=60)
                    rec["tool_decoded"] = rd.value if rd.kind == "ok" else ["harness " + rd.kind] * len(sx)
        return recs


def id_cost(S, criterion, push0=True):
    by_id = {u["id"]: u for u in S["user_instrs"]}

    def f(ident):
        if ident == "NOP":
            return 0
        if criterion == "length":
            return 1
        u = by_id.get(ident)
        if u is None:
            ins = (ident, None)
        else:
            d = u["disasm"]
            if d == "PUSH":
                ins = ("PUSH", int(u["value"][0]))
            elif d == "PUSH0":
                ins = ("PUSH", 0)
            else:
                ins = (d, None)
        if criterion == "size":
            return cost.item_size(ins, push0)
        return cost.item_gas_static(ins, push0)
    return f
