"""C12 -- a block's result does not depend on what was processed before it."""
import copy
import json
import random
import time
import hypothesis
from hypothesis import settings, strategies as st, HealthCheck, Phase
from hypothesis.stateful import RuleBasedStateMachine, rule, initialize, invariant, run_state_machine_as_test

from .. import evm, asm, hermetic, runner, pipeline, gen, options

ID = "C12"
RULE = ("Hypothesis stateful machines (RuleBasedStateMachine): one machine = one process-like history with fixed options over a "
        "pool of generated blocks (rules fired, stores, -storage/-partition splitting, zero pushes, commutative operations computed in both operand orders, loads kept across stores, stores of terms at varying stack depths, blocks whose analysis fails); rules: process(block_i) as an "
        "isolated block and process_contract(permutation) as a contract, up to 40 steps, never resetting the tool's module state "
        "in between; after every step the specification dictionaries (all fields, identifiers included), sub-block list, optimized "
        "instructions, log ids and statistics row (minus timings) must equal the result of the same block on pristine module state; "
        "the pristine-state emulation (module data globals, mutable default arguments and mutable class attributes of every repository module put back to their import-time values) is itself cross-checked against newly started interpreters on a sample; "
        "non-trivial = step whose history already contains >= 1 other block; distinct by (block, options, history hash)")
ASSUME = ["pristine module state is emulated by restoring the data globals of the tool's stateful modules, and the mutable default "
          "arguments / class attributes of all its modules, to their import-time snapshot; validated against newly started "
          "interpreters on a sample in every run",
          "greedy back-end (deterministic); Max-SMT results are excluded because solvers time out non-deterministically"]
OPTSETS = [["-greedy"], ["-storage", "-greedy"], ["-partition", "-size", "-greedy"], ["-no-simplification", "-push0", "-greedy"],
           ["-length", "-greedy"]]
TIME_KEYS = ("solver_time_in_sec", "time")


def process_block(items, argv, name="h_block"):
    """(in the tool's process) everything observable for one basic block; params parsing only"""
    import gasol_asm
    params = hermetic.make_params(["in.json"] + list(argv))
    return _process(items, params, name)


def _process(items, params, name):
    import gasol_asm
    blocks = hermetic.build_blocks(items, cname="h", prefix=name)
    out = []
    for b in blocks:
        d = {}
        if b.instructions_to_optimize_plain() == []:
            out.append({"empty": True})
            continue
        try:
            sfs, subs = gasol_asm.compute_original_sfs_with_simplifications(b, params)
            d["spec"] = copy.deepcopy(sfs["syrup_contract"])
            d["subs"] = copy.deepcopy(subs)
        except Exception as e:
            d["spec_error"] = type(e).__name__
        try:
            nb, log, rows = gasol_asm.optimize_asm_block_asm_format(b, params)
            eq, reason = gasol_asm.compare_asm_block_asm_format(b, nb, params)
            d["optimized"] = [i.to_json() for i in (nb if eq else b).instructions]
            d["eq"] = eq
            d["log"] = log if eq else {}
            d["rows"] = [{k: v for k, v in r.items() if k not in TIME_KEYS} for r in rows]
        except Exception as e:
            d["opt_error"] = type(e).__name__
        out.append(d)
    return out


def start_history(argv):
    """what a process does once at start-up"""
    params = hermetic.make_params(["in.json"] + list(argv))
    hermetic.prepare_globals(params)
    return True


def norm(x):
    return json.loads(json.dumps(x, sort_keys=True, default=str))


def first_diff(a, b, path="$"):
    if type(a) != type(b):
        return "%s: %r vs %r" % (path, a, b)
    if isinstance(a, dict):
        for k in sorted(set(a) | set(b)):
            if k not in a or k not in b:
                return "%s.%s present on one side only" % (path, k)
            d = first_diff(a[k], b[k], path + "." + str(k))
            if d:
                return d
        return None
    if isinstance(a, list):
        if len(a) != len(b):
            return "%s: length %d vs %d" % (path, len(a), len(b))
        for i, (x, y) in enumerate(zip(a, b)):
            d = first_diff(x, y, "%s[%d]" % (path, i))
            if d:
                return d
        return None
    return None if a == b else "%s: %r vs %r" % (path, a, b)


def field_of(d):
    import re
    m = re.findall(r"\.([A-Za-z_]+)", d.split(":")[0])
    return ".".join(m[-2:]) if m else "?"


class Shard:
    def __init__(self, pool, stats):
        self.pool = pool
        self.stats = stats
        self.model = {}

    def fresh(self, i, oi):
        key = (i, oi)
        if key not in self.model:
            raise KeyError(key)
        return self.model[key]

    def build_models(self):
        for oi, argv in enumerate(OPTSETS):
            for i, blk in enumerate(self.pool):
                items = asm.instrs_to_items(blk)

                def go():
                    start_history(argv)
                    return process_block(items, argv)
                r = hermetic.local(go, timeout=30)      # reset=True: pristine state
                self.model[(i, oi)] = norm(r.value) if r.kind == "ok" else {"harness": r.kind}

    def validate_models(self, rng, n=3):
        """the pristine-state emulation must agree with really fresh interpreters (a forked child would inherit whatever
        hidden state this process has accumulated, so a new Python process is started for every sample)"""
        from .c13 import Server
        keys = rng.sample(sorted(self.model), min(n, len(self.model)))
        for (i, oi) in keys:
            srv = Server("0")
            try:
                ans = srv.ask({"call": "vf.props.c12:server_job", "items": asm.instrs_to_items(self.pool[i]), "argv": OPTSETS[oi]})
            finally:
                srv.close()
            got = norm(ans["value"]) if ans["kind"] == "ok" else {"harness": ans["kind"]}
            self.stats.classes["model cross-checked against a fresh interpreter"] += 1
            if got != self.model[(i, oi)]:
                d = first_diff(self.model[(i, oi)], got)
                raise runner.HarnessError("pristine-state emulation disagrees with a fresh interpreter on `%s` %s: %s" % (
                    asm.instrs_to_plain(self.pool[i]), OPTSETS[oi], d))


def server_job(job):
    """(inside a fresh interpreter) one block on a process that has processed nothing else"""
    start_history(job["argv"])
    return process_block(job["items"], job["argv"])


def make_machine(shard, budget_s=None):
    pool_n = len(shard.pool)
    deadline = [time.time() + budget_s if budget_s else None]

    # blocks whose analysis fails cost seconds per step (a RecursionError 1000 frames deep, three times): they are drawn
    # six times less often than the others
    slow = [k for k, b in enumerate(shard.pool) if any(n == "PC" for n, _ in b)]
    index_space = [k for k in range(pool_n) for _ in range(1 if k in slow else 6)]

    def out_of_budget():
        # exploration budget of the shard (a pool with one slow block must not keep the whole run waiting); what was not
        # explored is counted, never judged
        if deadline[0] is not None and time.time() > deadline[0]:
            shard.stats.classes["steps skipped: exploration budget of the shard used up"] += 1
            return True
        return False

    class History(RuleBasedStateMachine):
        def __init__(self):
            super().__init__()
            self.hist = []
            self.oi = None
            self.fail = None

        @initialize(oi=st.integers(0, len(OPTSETS) - 1))
        def start(self, oi):
            self.oi = oi
            hermetic.local_init()
            hermetic.reset_globals()
            hermetic.local(start_history, OPTSETS[oi], reset=False)

        def _judge(self, i, got, how):
            st_ = shard.stats
            st_.evaluations += 1
            want = shard.fresh(i, self.oi)
            if (isinstance(got, dict) and "harness" in got) or (isinstance(want, dict) and "harness" in want):
                # a wall-clock time-out of the in-process call (machine load) on either side says nothing about the tool
                st_.inconclusive += 1
                st_.classes["inconclusive: in-process call timed out"] += 1
                self.hist.append(i)
                return
            if self.hist:
                st_.nontrivial.add(runner.jhash([i, self.oi, self.hist[-6:], how]))
            st_.classes["step after history of length %s" % ("0" if not self.hist else "1-5" if len(self.hist) <= 5 else "6+")] += 1
            if got != want:
                d = first_diff(want, got) or "?"
                blocks = [asm.instrs_to_plain(shard.pool[j]) for j in self.hist] + [asm.instrs_to_plain(shard.pool[i])]
                st_.fail(runner.Failure("history-dependent", field_of(d), "[%s] `%s` after %d earlier block(s) (%s): %s" % (
                    options.label(OPTSETS[self.oi]), blocks[-1], len(self.hist), how, d[:300]),
                    {"type": "history", "blocks": blocks, "argv": OPTSETS[self.oi], "how": how}))
            self.hist.append(i)

        @rule(i=st.integers(0, len(index_space) - 1))
        def process(self, i):
            i = index_space[i]
            if out_of_budget():
                return
            items = asm.instrs_to_items(shard.pool[i])
            r = hermetic.local(process_block, items, OPTSETS[self.oi], reset=False, timeout=30)
            self._judge(i, norm(r.value) if r.kind == "ok" else {"harness": r.kind}, "isolated")

        @rule(idx=st.lists(st.integers(0, len(index_space) - 1), min_size=2, max_size=5))
        def process_contract(self, idx):
            idx = [index_space[k] for k in idx]
            """several blocks in one go (as a contract would): each must still equal its own fresh result"""
            for i in idx:
                if out_of_budget():
                    return
                items = asm.instrs_to_items(shard.pool[i])
                r = hermetic.local(process_block, items, OPTSETS[self.oi], reset=False, timeout=30)
                self._judge(i, norm(r.value) if r.kind == "ok" else {"harness": r.kind}, "within a batch")

    return History


def pool_strategy():
    rnd = st.lists(st.one_of(gen.block(max_len=12), gen.block(max_len=14, profile=gen.MEM_PROFILE), gen.block(max_len=10, profile=gen.ARITH_PROFILE),
                             gen.block(max_len=26, profile=gen.SPLIT_PROFILE), gen.corpus_block()), min_size=18, max_size=18)
    # blocks that populate the analysis' bookkeeping (unified instructions, kept loads) and blocks that are sensitive to it
    # (stores whose operand names vary): always present in a pool
    setters = st.builds(lambda a, b: a + b, st.lists(st.one_of(gen.swapped_commutative_block(), gen.kept_loads_block()), min_size=5, max_size=5),
                        st.lists(gen.failing_block(), min_size=2, max_size=2))          # ... and blocks whose analysis fails
    observers = st.lists(st.one_of(gen.store_terms_block(), gen.two_store_block(), gen.kept_loads_block()), min_size=7, max_size=7)
    return st.builds(lambda a, b, c: a + b + c, rnd, setters, observers)


def shard_run(n_machines, steps, sd):
    hermetic.setup_repo()
    stats = runner.Stats()
    pools = []

    @hypothesis.seed(sd)
    @settings(max_examples=6, database=None, deadline=None, phases=(Phase.generate,), suppress_health_check=list(HealthCheck))   # the first example Hypothesis generates is the minimal one: keep the last of six
    @hypothesis.given(pool_strategy())
    def draw(p):
        pools.append(p)
    draw()
    shard = Shard(pools[-1], stats)
    shard.build_models()
    shard.validate_models(random.Random(sd))
    M = make_machine(shard, budget_s=(240 if n_machines <= 20 else 1200))
    run_state_machine_as_test(hypothesis.seed(sd)(M), settings=settings(max_examples=n_machines, stateful_step_count=steps, deadline=None,
                                                                        database=None, phases=(Phase.generate,),
                                                                        suppress_health_check=list(HealthCheck)))
    if len(stats.samples) < 3:
        stats.sample({"pool_blocks": [asm.instrs_to_plain(b) for b in shard.pool[:4]], "options": [options.label(a) for a in OPTSETS]})
    return stats


def replay_case(case, stats=None):
    """replay a history in a fresh forked child: last block after the earlier ones vs alone"""
    stats = stats or runner.Stats()
    blocks = [asm.parse_plain(t) for t in case["blocks"]]
    argv = case.get("argv", ["-greedy"])

    def alone():
        start_history(argv)
        return process_block(asm.instrs_to_items(blocks[-1]), argv)

    def after():
        start_history(argv)
        for b in blocks[:-1]:
            process_block(asm.instrs_to_items(b), argv)
        return process_block(asm.instrs_to_items(blocks[-1]), argv)
    a = hermetic.call(alone, cpu=60)
    b = hermetic.call(after, cpu=120)
    stats.evaluations += 1
    va = norm(a.value) if a.kind == "ok" else {"harness": a.kind}
    vb = norm(b.value) if b.kind == "ok" else {"harness": b.kind}
    if a.kind != "ok" or b.kind != "ok":
        stats.inconclusive += 1
        return []
    if va != vb:
        d = first_diff(va, vb) or "?"
        return [runner.Failure("history-dependent", field_of(d), "[%s] `%s` after %d earlier block(s): %s" % (
            options.label(argv), case["blocks"][-1], len(blocks) - 1, d[:300]), case)]
    return []


def shrink(f):
    """drop earlier blocks of the history while the dependence persists"""
    case = dict(f.case)
    best = f
    t0 = time.time()
    changed = True
    while changed and time.time() - t0 < 40 and len(case["blocks"]) > 2:
        changed = False
        for k in range(len(case["blocks"]) - 1):
            c = dict(case, blocks=case["blocks"][:k] + case["blocks"][k + 1:])
            r = replay_case(c)
            if r:
                case, best, changed = c, r[0], True
                break
    return best


def _dispatch(fn, a):
    return fn(*a)


def main(tier, seed_):
    t0 = time.time()
    hermetic.setup_repo()
    stats = runner.Stats()
    for path in runner.replay_files(ID):
        for f in replay_case(json.load(open(path))["case"], stats):
            stats.fail(f)
    n_m, steps = (10, 30) if tier == "quick" else (250, 50)
    res = runner.run_shards(_dispatch, [(shard_run, (n_m, steps, runner.shard_seed(seed_, i, "c12"))) for i in range(runner.NPROC)])
    stats.merge(runner.merge_stats(res))
    return runner.conclude(ID, tier, seed_, stats, RULE, ASSUME, t0, exhaustive=False, shrink=shrink)
