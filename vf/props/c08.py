"""C08 -- optimization never makes a block costlier in the chosen criterion."""
import json
import random
import time
from hypothesis import given, settings, seed, strategies as st, HealthCheck, Phase

from .. import evm, asm, hermetic, runner, pipeline, gen, docs, options, cost, docrun

ID = "C08"
RULE = ("contracts of generated blocks (criterion-heavy mix: folding that widens constants, repeated SLOAD/BALANCE keys, "
        "multi-segment blocks, zero pushes) x {no split,-storage,-partition} x {gas,-size,-length} x {rules on,off} x {push0 on,off} "
        "x {-greedy, -ub-greedy+z3 three-way selection, z3}; the emitted file is read back and, with an independent cost table "
        "(E9), every block must satisfy cost_c(B') <= cost_c(B) and, if it changed, the documented acceptance rule; the totals "
        "printed by the tool and the saved_* columns of the block CSV must equal the sums/differences of the independent per-block "
        "figures; plus an exhaustive diff of the independent size/gas table against the tool's table over every opcode name; "
        "non-trivial = emitted block differs from the input block; distinct by (block, options)")
ASSUME = ["E9 cost table vf/cost.py: Yellow Paper + EIP-2929/3529/3855; EXP priced with a one-byte exponent, per-word/per-byte "
          "dynamic parts excluded on both sides, SSTORE as reset + cold surcharge; first access to a syntactically identical key in a "
          "block is cold, later ones warm",
          "json mode: deployment (init code) size is excluded from the printed size totals, as the tool documents"]


def crit_of(argv):
    return "size" if "-size" in argv else "length" if "-length" in argv else "gas"


def table_diff():
    """(child) exhaustive comparison of the independent table with the tool's over every opcode name"""
    import sfs_generator.opcodes as opcodes
    from sfs_generator.utils import get_ins_size
    diffs = []
    names = sorted(set(evm.ARITY) - {"PUSH0"})
    n = 0
    for name in names:
        for val in ((0, 1, 255, 256, 2 ** 256 - 1) if name == "PUSH" else (None,)):
            n += 1
            ins = (name, val)
            try:
                theirs = get_ins_size(name, val)
            except Exception as e:
                theirs = "raises %s" % type(e).__name__
            mine = cost.item_size(ins, push0=False)
            if theirs != mine:
                diffs.append(("size", name, val, theirs, mine))
        if name in ("SLOAD", "SSTORE", "BALANCE", "EXTCODESIZE", "EXTCODEHASH", "EXTCODECOPY"):
            for warm in (False, True):
                n += 1
                theirs = opcodes.get_ins_cost(name, None, already=warm)
                mine = {"SLOAD": (2100, 100), "SSTORE": (5000, 2900)}.get(name, (2600, 100))[1 if warm else 0]
                if theirs != mine:
                    diffs.append(("gas", name, warm, theirs, mine))
            continue
        n += 1
        theirs = opcodes.get_ins_cost(name, None)
        mine = 3 if (name.startswith("PUSH") or name.startswith("DUP") or name.startswith("SWAP")) else cost.STATIC[name]
        if name in ("SHA3",):
            continue
        if theirs != mine:
            diffs.append(("gas", name, None, theirs, mine))
    return n, diffs


def check_document(blocks, argv, stats, label):
    fails = []
    init = [[("PUSH", 0x80), ("PUSH", 0x40), ("MSTORE", None), ("PUSH", 0), ("DUP1", None), ("REVERT", None)]]
    doc = docs.make_document(init, blocks)
    r = docrun.run(doc, argv)
    stats.evaluations += 1
    lab = options.label(argv)
    crit = crit_of(argv)
    push0 = "-push0" not in argv
    if r.kind != "ok" or r.value["exc"] is not None or r.value["doc_out"] is None:
        stats.classes["run raised / no output (C10 territory)"] += 1
        return fails
    v = r.value
    case = {"type": "doc", "blocks": [asm.instrs_to_plain(b) for b in blocks], "argv": list(argv), "label": label}
    try:
        pairs = docs.aligned_blocks(doc, v["doc_out"])
    except Exception as e:
        stats.classes["unalignable output (C09 territory)"] += 1
        return fails
    tot = {"gas_before": 0, "gas_after": 0, "size_before": 0, "size_after": 0, "len_before": 0, "len_after": 0}
    per_block = []
    for where, bi, bo in pairs:
        try:
            a, b = asm.items_to_instrs(bi), asm.items_to_instrs(bo)
        except asm.BadItem:
            stats.classes["unreadable item (C09 territory)"] += 1
            return fails
        fa, fb = cost.block_figures(a, push0), cost.block_figures(b, push0)
        per_block.append((a, b, fa, fb))
        tot["gas_before"] += fa[0]; tot["gas_after"] += fb[0]
        tot["len_before"] += fa[2]; tot["len_after"] += fb[2]
        if "/.data/" in where or ".data" in where.split(" ")[-2]:
            tot["size_before"] += fa[1]; tot["size_after"] += fb[1]
        idx = {"gas": 0, "size": 1, "length": 2}[crit]
        changed = asm.canon(a) != asm.canon(b)
        if changed:
            stats.nontrivial.add(runner.jhash([asm.instrs_to_plain(a), lab]))
            stats.classes["changed block, criterion " + crit] += 1
        if fb[idx] > fa[idx]:
            fails.append(runner.Failure("costlier", crit + ":" + lab.split(" ")[-1], "[%s] `%s` (%s=%d) => `%s` (%s=%d)" % (
                lab, asm.instrs_to_plain(a), crit, fa[idx], asm.instrs_to_plain(b), crit, fb[idx]),
                dict(case, blocks=[asm.instrs_to_plain(a)], optimized=asm.instrs_to_plain(b), figures=[fa, fb])))
        elif changed and not cost.improves(crit, fa, fb):
            fails.append(runner.Failure("changed-without-improving", crit + ":" + lab.split(" ")[-1], "[%s] `%s` %s => `%s` %s does not satisfy the acceptance rule (gas,size,length)" % (
                lab, asm.instrs_to_plain(a), fa, asm.instrs_to_plain(b), fb),
                dict(case, blocks=[asm.instrs_to_plain(a)], optimized=asm.instrs_to_plain(b), figures=[fa, fb])))
        elif changed and len(stats.samples) < 6:
            stats.sample({"options": lab, "block": asm.instrs_to_plain(a), "optimized": asm.instrs_to_plain(b), "gas/size/length before": fa, "after": fb})
    # printed totals
    pt = v["totals"]
    for k in tot:
        if k not in pt:
            fails.append(runner.Failure("totals-missing", k, "[%s] the run did not print %s" % (lab, k), case))
        elif pt[k] != tot[k]:
            fails.append(runner.Failure("totals-differ", k.split("_")[0], "[%s] printed %s=%d but the per-block figures sum to %d" % (lab, k, pt[k], tot[k]), case))
    # block CSV: saved_* = differences
    rows = v["block_rows"]
    if rows and len(rows) == len(per_block):
        for row, (a, b, fa, fb) in zip(rows, per_block):
            for j, m in enumerate(("gas", "size", "length")):
                try:
                    saved = int(float(row["saved_" + m]))
                except (KeyError, ValueError):
                    fails.append(runner.Failure("csv-malformed", m, "[%s] block CSV has no usable saved_%s" % (lab, m), case))
                    break
                if saved != fa[j] - fb[j]:
                    fails.append(runner.Failure("csv-differs", m, "[%s] CSV saved_%s=%d for `%s` but independent figures give %d" % (
                        lab, m, saved, asm.instrs_to_plain(a), fa[j] - fb[j]), dict(case, blocks=[asm.instrs_to_plain(a)])))
    elif rows:
        stats.classes["csv row count differs from block count (not compared)"] += 1
    return fails


COSTY = dict(push=20, pseudo=2, dup=12, swap=10, pop=5, bin=16, un=5, ter=1, env0=4, env1=5, mem=6, sto=12, keccak=1, split=3, idiom=12)


def block_strategy():
    return st.one_of(gen.block(max_len=16, profile=COSTY), gen.block(max_len=14, profile=gen.ARITH_PROFILE),
                     gen.block(max_len=24, profile=gen.SPLIT_PROFILE), gen.corpus_block(), gen.kept_loads_block(), gen.two_store_block(), gen.dead_load_by_rule_block(), gen.dup_tradeoff_block(), gen.dup_tradeoff_block(), gen.unused_hashes_block(), gen.store_terms_block(), gen.swapped_commutative_block(), gen.operand_split_block())


def shard_random(n, sd, backends):
    hermetic.setup_repo()
    stats = runner.Stats()

    @seed(sd)
    @settings(max_examples=n, database=None, deadline=None, phases=(Phase.generate,),
              suppress_health_check=list(HealthCheck), report_multiple_bugs=False)
    @given(st.lists(block_strategy(), min_size=1, max_size=6), options.pipeline_options(backends))
    def prop(blocks, argv):
        fs = check_document(blocks, argv, stats, "random")
        for f in pipeline.confirmed(fs, lambda: _redo(fs), stats):
            stats.fail(f)
    prop()
    return stats


def _redo(fs):
    out = []
    seen = set()
    for f in fs:
        key = json.dumps(f.case, sort_keys=True, default=str)
        if key not in seen:
            seen.add(key)
            out += replay_case(f.case)
    return out


def replay_case(case, stats=None):
    stats = stats or runner.Stats()
    if case["type"] == "table":
        return check_table(stats)
    blocks = [asm.parse_plain(t) for t in case["blocks"]]
    out = []
    for argv in ([case["argv"]] if "argv" in case else options.all_pipeline_options()):
        out += check_document(blocks, argv, stats, case.get("label", "replay"))
    return out


def check_table(stats):
    r = pipeline.gasol(table_diff, cpu=60)
    fails = []
    if r.kind != "ok":
        raise runner.HarnessError("table diff child: %s %s" % (r.kind, r.info))
    n, diffs = r.value
    stats.evaluations += n
    stats.notes["opcode-table-entries-compared"] = n
    for kind, name, val, theirs, mine in diffs:
        fails.append(runner.Failure("table-" + kind, name, "%s of %s%s: tool %s vs independent table %s" % (kind, name, "" if val is None else " " + str(val), theirs, mine),
                                    {"type": "table"}))
    return fails


def shrink(f):
    if f.case.get("type") != "doc" or len(f.case["blocks"]) != 1:
        return f
    from ..shrink import shrink_block
    instrs = asm.parse_plain(f.case["blocks"][0])
    argv = f.case["argv"]

    def still(cand):
        for x in check_document([cand], argv, runner.Stats(), "shrink"):
            if x.bucket == f.bucket:
                return x
        return None
    return shrink_block(instrs, still, budget_s=15) or f


def _dispatch(fn, a):
    return fn(*a)


def main(tier, seed_):
    t0 = time.time()
    hermetic.setup_repo()
    stats = runner.Stats()
    with pipeline.isolated():
        for f in check_table(stats):
            stats.fail(f)
        for path in runner.replay_files(ID):
            for f in replay_case(json.load(open(path))["case"], stats):
                stats.fail(f)
    n_g, n_s = (1400, 80) if tier == "quick" else (40000, 3000)
    jobs = []
    for i in range(runner.NPROC):
        jobs.append((shard_random, (max(1, n_g // runner.NPROC), runner.shard_seed(seed_, i, "c08g"), [options.GREEDY])))
        jobs.append((shard_random, (max(1, n_s // runner.NPROC), runner.shard_seed(seed_, i, "c08s"), [options.UBG_Z3, options.SMT_Z3])))
    res = runner.run_shards(_dispatch, jobs)
    stats.merge(runner.merge_stats(res))
    return runner.conclude(ID, tier, seed_, stats, RULE, ASSUME, t0, exhaustive=False, shrink=shrink)
