"""C09 -- non-optimizable code and metadata are preserved; emitted items are well formed."""
import copy
import json
import os
import random
import re
import time
from hypothesis import given, settings, seed, strategies as st, HealthCheck, Phase

from .. import evm, asm, hermetic, runner, pipeline, gen, docs, options, docrun
from .c15 import synthetic_doc, roundtrip_doc, json_diff, norm_push0

ID = "C09"
RULE = ("shipped solc outputs (quick: the 6 smallest, thorough: all) and Hypothesis-synthesised documents (contracts without asm, "
        "nested .data, string data entries, sourceList, jumpType, modifierDepth, all pseudo-push kinds, generated blocks) x option sets "
        "(split policy, criterion, rules, push0) with -greedy; the emitted *_optimized.json_solc is read with an independent reader: "
        "document outside the .code lists identical; skeleton (tags, JUMPDESTs, jumps, terminals, splitting instructions incl. stores "
        "under -storage) identical item by item with all fields; every other emitted item is a known name, PUSH value canonical hex "
        "< 2^256, DUP/SWAP 1..16, pseudo-push (kind, value) present in the same input block; the tool's own parser re-reads the output "
        "to the same JSON; non-trivial = >= 1 segment of the document was replaced; distinct by (document, options)")
ASSUME = ["own reader vf/asm.py; under -partition only the default splitting instructions are required in the skeleton"]
HEX = re.compile(r"^[0-9a-fA-F]+$")


def skeleton_names(argv):
    s = set(asm.BLOCK_BEGIN) | set(asm.BLOCK_END) | set(asm.DEFAULT_SPLIT)
    if "-storage" in argv:
        s |= {"MSTORE", "MSTORE8", "SSTORE"}
    return s


def strip_codes(doc, names):
    """copy of the document with every .code list reduced to its skeleton"""
    d = copy.deepcopy(doc)
    for _, _, code in docs.code_streams(d):
        code[:] = [it for it in code if it.get("name") in names]
    return d


def pseudo_set(items):
    s = set()
    for it in items:
        n = it.get("name")
        if n in asm.VALUE_KINDS and n != "tag":
            s.add((n, evm.pseudo_key(n, str(it.get("value")))))
    return s


def item_wellformed(it, allowed_pseudo):
    n = it.get("name")
    if not isinstance(n, str):
        return "item without a name"
    if n == "PUSH0":
        return None if "value" not in it else "PUSH0 with a value"
    if n == "PUSH":
        v = it.get("value")
        if not isinstance(v, str) or not HEX.match(v):
            return "PUSH value %r is not plain hexadecimal" % (v,)
        if int(v, 16) >= evm.M256:
            return "PUSH value %s >= 2^256" % v
        if len(v) > 1 and v[0] == "0":
            return "PUSH value %r has leading zeros" % v
        return None
    if n.startswith("DUP") or n.startswith("SWAP"):
        k = n[3:] if n.startswith("DUP") else n[4:]
        if not k.isdigit() or not 1 <= int(k) <= 16:
            return "%s depth outside 1..16" % n
        return None
    if n in asm.VALUE_KINDS:
        v = it.get("value")
        if not isinstance(v, str):
            return "%s value %r is not a string" % (n, v)
        if n != "tag" and (n, evm.pseudo_key(n, v)) not in allowed_pseudo:
            return "%s operand %r does not occur in the input block" % (n, v)
        return None
    if n not in evm.ARITY:
        return "unknown item name %r" % n
    return None


def check_output(doc, out_doc, argv, stats, case, lab):
    fails = []
    names = skeleton_names(argv)

    def fail(kind, cul, what):
        fails.append(runner.Failure(kind, cul, "[%s] %s" % (lab, what), case))
    a, b = strip_codes(doc, names), strip_codes(out_doc, names)
    if "-push0" not in argv:
        a, b = norm_push0(a), norm_push0(b)
    d = json_diff(a, b)
    if d:
        kind = "skeleton-changed" if ".code" in d else "metadata-changed"
        m = re.search(r"\.code\[\d+\]\.?(\w*)", d)
        fail(kind, (m.group(1) or "item") if m else d.split(":")[0].split(".")[-1][:30], d[:300])
        return fails, 0
    # per block well-formedness of non-skeleton items
    replaced = 0
    try:
        pairs = docs.aligned_blocks(doc, out_doc)
    except ValueError as e:
        fail("skeleton-changed", "blocks", str(e))
        return fails, 0
    for where, bi, bo in pairs:
        if bi == bo:
            continue
        allowed = pseudo_set(bi)
        if [it for it in bi if it.get("name") not in names] != [it for it in bo if it.get("name") not in names]:
            replaced += 1
        for it in bo:
            if it.get("name") in names:
                continue
            if it in bi:
                continue
            w = item_wellformed(it, allowed)
            if w:
                fail("malformed-item", str(it.get("name")), "%s: emitted item %s: %s" % (where, it, w))
                break
            for k in it:
                if k not in ("begin", "end", "name", "source", "value", "jumpType", "modifierDepth"):
                    fail("malformed-item", "field " + k, "%s: emitted item has unknown field %s" % (where, k))
    return fails, replaced


def check_document(doc, argv, stats, label, mode="combined", reread=True):
    lab = options.label(argv) + ("" if mode == "combined" else " -single-json")
    big = len(json.dumps(doc)) > 30000
    case = {"type": "doc", "doc": None if big else doc, "file": label, "argv": list(argv), "mode": mode}
    r = docrun.run(doc if mode == "combined" else list(doc["contracts"].values())[0]["asm"], argv, mode=mode)
    stats.evaluations += 1
    if r.kind != "ok" or r.value["exc"] is not None or r.value["doc_out"] is None:
        stats.classes["run raised / no output (C10 territory)"] += 1
        return []
    out_doc = r.value["doc_out"]
    ref = doc if mode == "combined" else {"contracts": {"c": {"asm": list(doc["contracts"].values())[0]["asm"]}}}
    outw = out_doc if mode == "combined" else {"contracts": {"c": {"asm": out_doc}}}
    fails, replaced = check_output(ref, outw, argv, stats, case, lab)
    stats.classes["segments replaced: %s" % ("0" if replaced == 0 else "1-3" if replaced < 4 else "4+")] += 1
    if replaced:
        stats.nontrivial.add(runner.jhash([label if big else doc, lab]))
        if len(stats.samples) < 5:
            stats.sample({"document": label, "options": lab, "blocks_with_replaced_segments": replaced})
    if reread and not fails:
        rr = pipeline.gasol(roundtrip_doc, json.dumps(out_doc), "-push0" not in argv, mode != "combined", cpu=120)
        if rr.kind == "timeout":
            stats.inconclusive += 1           # wall-clock limit of the harness: machine load, not the tool
        elif rr.kind != "ok":
            fails.append(runner.Failure("output-not-rereadable", str(rr.info[0] if rr.kind == "exc" else rr.kind),
                                        "[%s] the tool's parser cannot re-read its own output: %s" % (lab, str(rr.info)[:200]), case))
        else:
            a, b = out_doc, rr.value
            if "-push0" not in argv:
                a, b = norm_push0(a), norm_push0(b)
            d = json_diff(a, b)
            if d:
                fails.append(runner.Failure("output-not-idempotent", d.split(":")[0].split(".")[-1][:30], "[%s] re-reading the output changes it: %s" % (lab, d[:200]), case))
    return fails


def argv_strategy():
    return st.builds(lambda a, b, c, d: a + b + c + d + ["-greedy"], st.sampled_from(options.SPLIT), st.sampled_from(options.CRIT),
                     st.sampled_from(options.RULES), st.sampled_from(options.PUSH0))


def shard_files(files, argvs):
    hermetic.setup_repo()
    stats = runner.Stats()
    for f in files:
        doc = json.load(open(f))
        for argv in argvs:
            fs = check_document(doc, argv, stats, os.path.basename(f), reread=True)
            for x in pipeline.confirmed(fs, lambda: check_document(doc, argv, runner.Stats(), os.path.basename(f)), stats):
                stats.fail(x)
    return stats


def shard_random(n, sd):
    hermetic.setup_repo()
    stats = runner.Stats()

    @seed(sd)
    @settings(max_examples=n, database=None, deadline=None, phases=(Phase.generate,),
              suppress_health_check=list(HealthCheck), report_multiple_bugs=False)
    @given(synthetic_doc(), argv_strategy(), st.integers(0, 5))
    def prop(doc, argv, m):
        mode = "single" if m == 0 else "combined"
        fs = check_document(doc, argv, stats, "synthetic", mode=mode)
        for x in pipeline.confirmed(fs, lambda: check_document(doc, argv, runner.Stats(), "synthetic", mode=mode), stats):
            stats.fail(x)
    prop()
    return stats


def replay_case(case, stats=None):
    stats = stats or runner.Stats()
    doc = case.get("doc")
    if doc is None and case.get("blocks"):
        doc = docs.make_document([[("STOP", None)]], [asm.parse_plain(t) for t in case["blocks"]])
    if doc is None:
        c = [f for f in gen.corpus_files() if os.path.basename(f) == case.get("file")]
        if not c:
            return []
        doc = json.load(open(c[0]))
    out = []
    for argv in ([case["argv"]] if "argv" in case else [a + ["-greedy"] for a in options.SPLIT]):
        out += check_document(doc, argv, stats, case.get("file", "replay"), mode=case.get("mode", "combined"))
    return out


def _dispatch(fn, a):
    return fn(*a)


def main(tier, seed_):
    t0 = time.time()
    hermetic.setup_repo()
    stats = runner.Stats()
    with pipeline.isolated():
        for path in runner.replay_files(ID):
            for f in replay_case(json.load(open(path))["case"], stats):
                stats.fail(f)
    files = sorted(gen.corpus_files(), key=lambda f: os.path.getsize(f))
    if tier == "quick":
        files = files[:6]
        argvs = [["-greedy"], ["-storage", "-size", "-greedy"], ["-partition", "-push0", "-greedy"]]
        n = 640
    else:
        argvs = [["-greedy"], ["-storage", "-size", "-greedy"], ["-partition", "-push0", "-greedy"], ["-length", "-no-simplification", "-greedy"]]
        n = 20000
    per = max(1, n // runner.NPROC)
    jobs = [(shard_files, ([f], [av])) for f in files for av in argvs]
    jobs += [(shard_random, (per, runner.shard_seed(seed_, i, "c09"))) for i in range(runner.NPROC)]
    res = runner.run_shards(_dispatch, jobs)
    stats.merge(runner.merge_stats(res))
    return runner.conclude(ID, tier, seed_, stats, RULE, ASSUME, t0, exhaustive=False, extra_cov={"shipped_documents": len(files)})
