"""E10 (part) -- independent reader/writer of solc assembly items and GASOL plain text.

Internal instruction form: (name, arg)
  PUSH            arg = int
  pseudo pushes   arg = operand *string* exactly as in the file (or None)
  tag             arg = operand string
  ASSIGNIMMUTABLE arg = operand string
  everything else arg = None
"""
import json
from . import evm

VALUE_KINDS = {"PUSH [tag]", "PUSH #[$]", "PUSH [$]", "PUSH data", "PUSHLIB", "PUSHIMMUTABLE",
               "ASSIGNIMMUTABLE", "tag"}
NOVALUE_PSEUDO = {"PUSHSIZE", "PUSHDEPLOYADDRESS"}
BLOCK_BEGIN = {"tag", "JUMPDEST"}
BLOCK_END = {"JUMP", "JUMPI", "STOP", "RETURN", "REVERT", "INVALID", "SELFDESTRUCT"}
DEFAULT_SPLIT = {"LOG0", "LOG1", "LOG2", "LOG3", "LOG4", "CALLDATACOPY", "CODECOPY", "EXTCODECOPY",
                 "RETURNDATACOPY", "CALL", "STATICCALL", "DELEGATECALL", "CREATE", "CREATE2",
                 "ASSIGNIMMUTABLE", "GAS"}
KNOWN_NAMES = set(evm.ARITY) | {"PUSH"}


class BadItem(Exception):
    pass


def item_to_instr(it):
    name = it["name"]
    v = it.get("value")
    if name == "PUSH":
        if not isinstance(v, str) or v == "" or any(c not in "0123456789abcdefABCDEF" for c in v):
            raise BadItem("PUSH value %r" % (v,))
        return ("PUSH", int(v, 16))
    if name == "PUSH0":
        return ("PUSH", 0)
    if name in VALUE_KINDS:
        if v is None:
            raise BadItem("%s without value" % name)
        return (name, str(v))
    if name not in evm.ARITY:
        raise BadItem("unknown item name %r" % name)
    return (name, None)


def items_to_instrs(items):
    return [item_to_instr(it) for it in items]


def instr_to_item(ins, begin=0, end=0, source=0, extra=None):
    name, arg = ins
    it = {"begin": begin, "end": end, "name": name, "source": source}
    if name == "PUSH":
        it["value"] = "%X" % arg
    elif name == "PUSH0":
        it["name"] = "PUSH"
        it["value"] = "0"
    elif arg is not None:
        it["value"] = arg
    if extra:
        it.update(extra)
    return it


def instrs_to_items(instrs, start=0):
    return [instr_to_item(ins, begin=start + 3 * i, end=start + 3 * i + 2, source=0) for i, ins in enumerate(instrs)]


def instr_to_plain(ins):
    """GASOL's human readable form (what AsmBytecode.to_plain prints and the -bl parser reads)."""
    name, arg = ins
    if name == "PUSH":
        return "PUSH %x" % arg
    if name in ("JUMP", "JUMPI"):
        return name
    if arg is not None:
        return "%s %s" % (name, arg)
    return name


def instrs_to_plain(instrs):
    return " ".join(instr_to_plain(i) for i in instrs)


def instr_to_evm_text(ins):
    """PUSHn 0x.. spelling accepted by the -bl parser"""
    name, arg = ins
    if name == "PUSH":
        n = max(1, (arg.bit_length() + 7) // 8)
        return "PUSH%d 0x%x" % (n, arg)
    return instr_to_plain(ins)


def parse_plain(text):
    """independent parser of the plain text GASOL prints (to_plain) -- used for
    'original_instrs' and for text outputs."""
    toks = text.split()
    out = []
    i = 0
    while i < len(toks):
        t = toks[i]
        if t == "PUSH":
            nxt = toks[i + 1]
            if nxt in ("[tag]", "#[$]", "[$]", "data"):
                out.append(("PUSH " + nxt, toks[i + 2]))
                i += 3
            else:
                out.append(("PUSH", int(nxt, 16)))
                i += 2
        elif t == "PUSH0":
            out.append(("PUSH", 0))
            i += 1
        elif len(t) > 4 and t.startswith("PUSH") and t[4:].isdigit():
            nxt = toks[i + 1]
            out.append(("PUSH", int(nxt, 16) if nxt.lower().startswith("0x") else int(nxt)))
            i += 2
        elif t in ("PUSHLIB", "PUSHIMMUTABLE", "ASSIGNIMMUTABLE", "tag"):
            out.append((t, toks[i + 1]))
            i += 2
        elif t in evm.ARITY:
            out.append((t, None))
            i += 1
        else:
            raise BadItem("token %r" % t)
    return out


def optimizable(instrs):
    return [i for i in instrs if i[0] not in BLOCK_BEGIN and i[0] not in BLOCK_END]


def split_blocks(items):
    """split an item stream into basic blocks the way solc assembly is structured:
    a block ends after a terminal/jump and a new one starts at every tag."""
    blocks, cur = [], []
    for it in items:
        n = it["name"]
        if n == "tag":
            if cur:
                blocks.append(cur)
            cur = [it]
        else:
            cur.append(it)
            if n in ("JUMP", "JUMPI", "STOP", "RETURN", "REVERT", "INVALID"):
                blocks.append(cur)
                cur = []
    if cur:
        blocks.append(cur)
    return blocks


def canon(instrs):
    """canonical comparable form: pseudo-push operands by numeric key"""
    out = []
    for n, a in instrs:
        if n == "PUSH0":
            out.append(("PUSH", 0))
        elif n in VALUE_KINDS:
            out.append((n, evm.pseudo_key(n, a)))
        else:
            out.append((n, a))
    return out


def walk_codes(asm, path=()):
    """yield (path, code_list) for every .code in a contract's asm tree"""
    if not isinstance(asm, dict):
        return
    if ".code" in asm:
        yield path + (".code",), asm[".code"]
    for k, v in (asm.get(".data") or {}).items():
        if isinstance(v, dict):
            yield from walk_codes(v, path + (".data", k))


def load_document(path):
    with open(path) as f:
        return json.load(f)
