"""E4 -- abstract sequence checker: does an id list realize a specification?"""


class Verdict:
    def __init__(self, ok, reason=None, pos=None, peak=0, length=0):
        self.ok = ok
        self.reason = reason
        self.pos = pos
        self.peak = peak
        self.length = length

    def __bool__(self):
        return self.ok

    def __repr__(self):
        return "Verdict(ok)" if self.ok else "Verdict(%s @%s)" % (self.reason, self.pos)


def step(stack, ident, by_id):
    """apply one id to a symbolic stack (list, top first).  returns (new_stack, error or None, kind)"""
    if ident == "NOP":
        return stack, None, "nop"
    if ident == "POP":
        if not stack:
            return stack, "POP on empty stack", "pop"
        return stack[1:], None, "pop"
    if ident.startswith("DUP") and ident[3:].isdigit():
        k = int(ident[3:])
        if not 1 <= k <= 16:
            return stack, "DUP depth %d outside 1..16" % k, "dup"
        if len(stack) < k:
            return stack, "%s underflows (height %d)" % (ident, len(stack)), "dup"
        return [stack[k - 1]] + stack, None, "dup"
    if ident.startswith("SWAP") and ident[4:].isdigit():
        k = int(ident[4:])
        if not 1 <= k <= 16:
            return stack, "SWAP depth %d outside 1..16" % k, "swap"
        if len(stack) < k + 1:
            return stack, "%s underflows (height %d)" % (ident, len(stack)), "swap"
        s = list(stack)
        s[0], s[k] = s[k], s[0]
        return s, None, "swap"
    u = by_id.get(ident)
    if u is None:
        return stack, "unknown id %r" % (ident,), "unknown"
    ins = list(u["inpt_sk"])
    n = len(ins)
    if len(stack) < n:
        return stack, "%s underflows (needs %d, height %d)" % (ident, n, len(stack)), "instr"
    top = stack[:n]
    if top != ins:
        if not (u.get("commutative") and n == 2 and top == ins[::-1]):
            return stack, "%s applied to %s but the specification names %s" % (ident, top, ins), "instr"
    return list(u.get("outpt_sk", [])) + stack[n:], None, "instr"


def check(S, ids, max_len=None, max_height=None, strict_order=True, nops_trailing=False):
    """Verdict for: ids realizes S."""
    by_id = {u["id"]: u for u in S["user_instrs"]}
    stack = list(S["src_ws"])
    peak = len(stack)
    count = {}
    positions = {}
    seen_nop = False
    eff_len = 0
    for pos, ident in enumerate(ids):
        if ident == "NOP":
            seen_nop = True
            continue
        if nops_trailing and seen_nop:
            return Verdict(False, "instruction %s after a NOP" % ident, pos, peak, eff_len)
        stack, err, kind = step(stack, ident, by_id)
        if err:
            return Verdict(False, err, pos, peak, eff_len)
        eff_len += 1
        peak = max(peak, len(stack))
        if kind == "instr":
            count[ident] = count.get(ident, 0) + 1
            positions.setdefault(ident, []).append(pos)
    if stack != list(S["tgt_ws"]):
        return Verdict(False, "final stack %s differs from the specified %s" % (stack, S["tgt_ws"]), len(ids), peak, eff_len)
    for u in S["user_instrs"]:
        if u.get("storage"):
            c = count.get(u["id"], 0)
            if c != 1:
                return Verdict(False, "store %s performed %d times" % (u["id"], c), None, peak, eff_len)
    deps = [tuple(d) for d in S.get("dependencies", [])]
    for k in ("storage_dependences", "memory_dependences"):
        for d in S.get(k, []):
            if tuple(d) not in deps:
                deps.append(tuple(d))
    for a, b in deps:
        pa, pb = positions.get(a), positions.get(b)
        if not pa or not pb:
            continue
        if strict_order:
            if max(pa) > min(pb):
                return Verdict(False, "ordering %s before %s violated (positions %s / %s)" % (a, b, pa, pb), None, peak, eff_len)
        elif pa[0] > pb[0]:
            return Verdict(False, "ordering %s before %s violated" % (a, b), None, peak, eff_len)
    if max_len is not None and eff_len > max_len:
        return Verdict(False, "length %d exceeds the bound %d" % (eff_len, max_len), None, peak, eff_len)
    if max_height is not None and peak > max_height:
        return Verdict(False, "stack height %d exceeds the bound %d" % (peak, max_height), None, peak, eff_len)
    return Verdict(True, None, None, peak, eff_len)


def ids_to_instrs(S, ids, liborder=None):
    """own mapping from ids to executable instructions (for the concrete confirmation)"""
    by_id = {u["id"]: u for u in S["user_instrs"]}
    out = []
    for i in ids:
        if i == "NOP":
            continue
        u = by_id.get(i)
        if u is None:
            out.append((i, None))
            continue
        d = u["disasm"]
        if d == "PUSH":
            out.append(("PUSH", int(u["value"][0])))
        elif d == "PUSH0":
            out.append(("PUSH", 0))
        elif d == "PUSH [tag]":
            out.append((d, str(u["value"][0])))
        elif d == "PUSHLIB":
            v = u["value"][0]
            real = None
            for idx, r in enumerate(liborder or []):
                if int(str(idx), 16) == int(v):
                    real = r
            out.append((d, real if real is not None else "%x" % int(v)))
        elif "value" in u and d != "ASSIGNIMMUTABLE":
            out.append((d, "%x" % int(u["value"][0])))
        else:
            out.append((d, None))
    return out
